// Evaluation of one numerical case against the library, case construction from entropy, replay-file I/O.
#include "specs.hpp"
#include "cmirror.hpp"
#include <cfenv>
#include <cerrno>
#include <masa.h>
using namespace MASA;
namespace MASA { void masa_verif_reset(); }

template <class Scalar> static std::map<std::string, long double> read_params(const std::vector<std::string> &names) {
  std::map<std::string, long double> r; Quiet q; for (auto &n : names) r[n] = (long double)masa_get_param<Scalar>(n); return r; }

// defaults right after masa_init, cached per solution name (parameter names come from masa_display_param)
static const std::map<std::string, long double> &defaults_of(const std::string &sol) {
  static std::map<std::string, std::map<std::string, long double>> cache;
  auto it = cache.find(sol); if (it != cache.end()) return it->second;
  { Quiet q; masa_verif_reset(); masa_init<long double>("defaults", sol); }
  auto names = param_names(1);
  return cache[sol] = read_params<long double>(names);
}

NumCase make_case(const Spec &s, int prec, const std::vector<uint64_t> &entropy, bool sweep) {
  NumCase c; c.sol = s.name; c.prec = prec; Draw d(entropy);
  std::map<std::string, long double> p = defaults_of(s.name);
  s.gen(d, p, sweep);
  long double pt[4] = {0, 0, 0, 0}; s.genpt(d, pt, p);
  if (s.genvec) { s.genvec(d, c.vec); if (!prec) for (auto &v : c.vec) v = (long double)(double)v; }
  if (s.name == "euler_chem_1d") { c.cb_kind = d.range(0, 2);
    if (c.cb_kind == 0) { c.cb[0] = d.logU(0.1L, 10.0L); c.cb[1] = c.cb[2] = 0; }
    else if (c.cb_kind == 1) { c.cb[0] = d.logU(0.1L, 10.0L); c.cb[1] = d.U(-1.0L, 1.0L); c.cb[2] = d.logU(100.0L, 5000.0L); }
    else { c.cb[0] = d.U(0.1L, 5.0L); c.cb[1] = d.U(0.1L, 5.0L); c.cb[2] = d.U(0.1L, 5.0L); }
    // equilibrium constants span dozens of decades in practice (cold gas: K_eq << machine epsilon): scale the family member accordingly
    { bool sc = d.coin(0.4); long double e = d.U(-30.0L, 10.0L); if (sc) { long double f = powl(10.0L, e); c.cb[0] *= f; if (c.cb_kind == 2) { c.cb[1] *= f; c.cb[2] *= f; } } }
    if (!prec) for (int i = 0; i < 3; i++) c.cb[i] = (double)c.cb[i]; }
  for (auto &kv : p) c.params[kv.first] = prec ? kv.second : (long double)(double)kv.second;
  for (int i = 0; i < 4; i++) c.pt[i] = prec ? pt[i] : (long double)(double)pt[i];
  return c;
}

bool nontrivial(const NumCase &c) {
  // no parameter is 0 or 1, no two parameters coincide (relative gap > 1e-9), coordinates distinct and non-zero:
  // the situation in which exchanging two parameters or two coordinates changes the answer far beyond the tolerance
  std::vector<long double> v; for (auto &kv : c.params) { if (kv.second == 0 || kv.second == 1) return false; v.push_back(kv.second); }
  std::sort(v.begin(), v.end());
  for (size_t i = 1; i < v.size(); i++) if (fabsl(v[i] - v[i - 1]) <= 1e-9L * std::max(fabsl(v[i]), fabsl(v[i - 1]))) return false;
  const Spec *s = find_spec(c.sol); int n = s ? s->nargs : 4;
  for (int i = 0; i < n; i++) { if (c.pt[i] == 0) return false; for (int j = 0; j < i; j++) if (c.pt[i] == c.pt[j]) return false; }
  return true;
}

uint64_t case_hash(const NumCase &c) { Hasher h; h.str(c.sol); h.i64(c.prec); for (auto &kv : c.params) { h.str(kv.first); h.ld(kv.second); } for (int i = 0; i < 4; i++) h.ld(c.pt[i]); h.i64(c.cb_kind); for (int i = 0; i < 3; i++) h.ld(c.cb[i]); for (auto v : c.vec) h.ld(v); return h.h; }

static bool wanted(const Ev &e, const std::string &prop) {
  if (prop == "C07") return e.kind == 2;
  if (prop == "C09" || prop.empty()) return true;
  return e.kind != 2;
}

long &mirror_compared() { static long n = 0; return n; }
template <class Scalar> static std::vector<Outcome> run_t(const Spec &s, const NumCase &c, double K, const std::string &prop) {
  std::vector<Outcome> out; const long double eps = std::numeric_limits<Scalar>::epsilon();
  // the other registry holds a decoy of the same solution type with default parameters: an entry point of this scalar type that
  // consults the wrong registry then returns a wrong value (judged by the oracle, shrinkable) instead of ending the process
  // The handle under test is spelled like the solution (the idiom of the library's own tests). Every fourth case (a pure function of the case)
  // additionally lives in a populated registry: a bystander handle of the same solution type is initialised after the first init of the handle
  // under test, which is then re-initialised while the bystander is selected -- masa_init must select it and give it fresh defaults; nothing
  // selects explicitly before the parameters are set. Before the second phase the bystander is re-initialised and the handle under test selected
  // back. At the end the bystander must still hold exactly the values it had after its own masa_init. A registry that releases, keeps or
  // selects the wrong instance then shows up in the numeric property that was computed on it.
  const std::string H = c.sol, BY = "bystander"; const bool populated = c.only.empty() && case_hash(c) % 4 == 0; std::map<std::string, long double> by0;
  { Quiet q; masa_verif_reset(); if (sizeof(Scalar) > 8) masa_init<double>("decoy", c.sol); else masa_init<long double>("decoy", c.sol);
    if (populated) { masa_init<Scalar>(H, c.sol); masa_init<Scalar>(BY, c.sol); } }
  if (populated) by0 = read_params<Scalar>(param_names(sizeof(Scalar) > 8));      // the bystander is the selected handle here
  { Quiet q; masa_init<Scalar>(H, c.sol); }
  { Quiet q; for (auto &kv : c.params) masa_set_param<Scalar>(kv.first, (Scalar)kv.second); }
  set_callback(c.cb_kind, c.cb);
  if (!c.vec.empty()) { std::vector<Scalar> v; for (auto x : c.vec) v.push_back((Scalar)x); Quiet q; masa_set_vec<Scalar>("vec_data", v); std::vector<Scalar> back; masa_get_vec<Scalar>("vec_data", back); std::vector<Q> qv; for (auto x : back) qv.push_back(Q((long double)x)); set_current_vec(qv); }
  auto names = param_names(sizeof(Scalar) > 8);
  auto held = read_params<Scalar>(names);
  PM p; for (auto &kv : held) p[kv.first] = Q(kv.second);     // the oracle sees the parameters the library holds
  // ... and the library must hold them at the working precision of the interface they were passed through
  for (auto &kv : c.params) { auto it = held.find(kv.first); if (it == held.end()) continue; Scalar want = (Scalar)kv.second, got = (Scalar)it->second; if (memcmp(&want, &got, sizeof(Scalar) > 8 ? 10 : 8) != 0 && !(want == 0 && got == 0)) { Outcome o; o.label = "parameter-store:" + kv.first; o.lib = it->second; o.ref = Q(kv.second); o.err = 1e300; o.status = 1; o.note = "masa_set_param/masa_get_param do not preserve the value at the precision of this scalar type"; out.push_back(o); break; } }
  Scalar pts[4]; Q ptq[4]; for (int i = 0; i < 4; i++) { pts[i] = (Scalar)c.pt[i]; ptq[i] = Q((long double)pts[i]); }
  long double ptl[4]; double ptd[4]; for (int i = 0; i < 4; i++) { ptl[i] = (long double)pts[i]; ptd[i] = (double)pts[i]; }
  // rmode >= 0: the library (and only the library; the binary128 reference always runs in round-to-nearest) is called under that
  // directed rounding mode, and judged with the tolerance Kuse
  int rmode = -1; double Kuse = K;
  auto call = [&](const Ev &e, const long double *al, const double *ad) -> long double { Quiet q; struct RM { int m; RM(int mm) : m(mm) { if (m >= 0) std::fesetround(m); } ~RM() { if (m >= 0) std::fesetround(FE_TONEAREST); } } rm(rmode);
    if (sizeof(Scalar) > 8) return e.ld(al); return (long double)e.d(ad); };
  std::string prefix;
  // evaluation order: the evaluators of the solution are called in the catalogue order of the spec, rotated by a case-dependent offset
  // (a pure function of the case, so the replay repeats it): an evaluator that relies on a sibling having been called first at this
  // point or for these parameters is then reached first in some cases
  const size_t rot = s.evals.empty() ? 0 : (size_t)(case_hash(c) % s.evals.size());
  auto evaluate_all = [&]() {
  for (size_t ei = 0; ei < s.evals.size(); ei++) { const Ev &e = s.evals[(ei + rot) % s.evals.size()];
    if (!wanted(e, prop)) continue; if (!c.only.empty() && c.only != e.label) continue;
    Outcome o; o.label = prefix + e.label; o.finding_cell = (bool)e.asbuilt; o.directed = rmode >= 0;
    try {
      if (e.skip && e.skip(p, ptq)) { o.status = 3; o.note = "within 1e-6 of a switching surface of the model"; out.push_back(o); continue; }
      o.lib = call(e, ptl, ptd);
      if (e.expect_err) {
        long double al[4]; double ad[4]; for (int i = 0; i < 4; i++) { al[i] = (long double)(Scalar)(ptl[i] * 1.37L + 0.11L); ad[i] = (double)al[i]; }
        long double second = call(e, al, ad);
        bool ok = e.expect_err == 1 ? (o.lib == -1.0L && second == -1.0L) : (std::isnan(o.lib) && std::isnan(second));
        o.ref = Q(e.expect_err == 1 ? -1.0L : 0.0L); o.err = ok ? 0 : 1e300; o.status = ok ? 0 : 1; o.note = e.expect_err == 1 ? "invalid direction index: expected exactly -1 at every point" : "invalid direction index: expected NaN at every point";
        out.push_back(o); continue; }
      o.ref = e.ref(p, ptq);
      auto errof = [&](const Q &r) -> double { __float128 diff = fabsq((__float128)o.lib - r.v); if (diff <= (__float128)std::numeric_limits<Scalar>::min()) return 0.0; /* underflow is not a roundoff violation */ if (!(r.m > 0)) return 1e300; double v = (double)(diff / r.m / (__float128)eps); return std::isfinite(v) ? v : 1e300; };
      o.err = std::isfinite((double)o.lib) || std::isfinite(o.lib) ? errof(o.ref) : 1e300;
      if (!std::isfinite(o.lib)) { o.status = 1; o.note = "non-finite value for finite admissible input"; }
      else if (o.err <= Kuse) o.status = 0;
      else if (e.asbuilt) { Q ab = e.asbuilt(p, ptq); double eab = errof(ab); o.errab = eab; if (eab <= Kuse) { o.status = 2; o.finding = e.finding; o.note = "matches the as-built operator to " + std::to_string(eab) + " eps*mag, not the operator the property names"; } else { o.status = 1; o.note = "matches neither the property operator nor the recorded as-built operator (as-built err " + std::to_string(eab) + ")"; } }
      else o.status = 1;
    } catch (std::exception &ex) { o.status = 1; o.err = 1e300; o.note = std::string("exception: ") + ex.what(); }
    out.push_back(o);
  }
  };
  // C-interface mirror (double only): the same evaluators through the extern "C" entry points, bit for bit
  auto mirror = [&]() { if (sizeof(Scalar) > 8 || !c.only.empty()) return; long n = 0;
    for (auto &m : c_mirror(ptd, s.nargs, prop == "C07" ? 1 : (prop == "C09" || prop.empty() ? 2 : 0), s.name == "euler_chem_1d" ? keq_d : nullptr, &n)) { Outcome o; o.label = prefix + "C-interface: " + m.cname + (m.idx ? "[" + std::to_string(m.idx) + "]" : ""); o.lib = m.c; o.ref = Q((long double)m.cxx); o.err = 1e300; o.status = 1;
      o.note = "the C entry point returns a value different from " + m.cxx_id + " of the C++ double API on the same handle at the same point"; out.push_back(o); }
    mirror_compared() += n; };
  // Ambient process state the library must neither consult nor depend on: in one case of eight errno holds a stale EDOM and the sticky
  // floating-point status flags (divide-by-zero, invalid, overflow) are raised before the evaluators are called, as an application's own
  // arithmetic leaves them. Values are required to be the same (the flags trap nothing).
  const bool poisoned = case_hash(c) % 8 == 1;
  auto poison = [&]() { if (!poisoned) return; errno = EDOM; std::feraiseexcept(FE_DIVBYZERO | FE_INVALID | FE_OVERFLOW); };
  poison(); evaluate_all(); mirror();
  // Second phase on the SAME handle: every parameter is changed through masa_set_param (x 1.0625; admissibility is preserved because all
  // amplitudes and offsets scale alike) and every evaluator is called again at the SAME point. A value cached per object or per process
  // (last point, last time, first Gamma seen) and not refreshed by masa_set_param shows up here, reproducibly from this one case.
  auto verify_bystander = [&](const std::string &when) { if (!populated) return; { Quiet q; masa_select_mms<Scalar>(BY); } auto by1 = read_params<Scalar>(names); { Quiet q; masa_select_mms<Scalar>(H); }
    for (auto &kv : by0) { Scalar a = (Scalar)kv.second, b = (Scalar)by1[kv.first]; if (memcmp(&a, &b, sizeof(Scalar) > 8 ? 10 : 8) != 0) { Outcome o; o.label = "registry (" + when + "): bystander handle, parameter " + kv.first; o.lib = by1[kv.first]; o.ref = Q(kv.second); o.err = 1e300; o.status = 1;
        o.note = "a second handle of the same solution type, initialised before the handle under test was re-initialised and never selected while parameters were set, no longer holds the values it had after its masa_init: the calls of this case reached the wrong instance"; out.push_back(o); break; } } };
  verify_bystander("after the first phase");
  if (populated) { Quiet q; masa_select_mms<Scalar>(H); masa_init<Scalar>(BY, c.sol); masa_select_mms<Scalar>(H); }     // select, init another handle, select back
  if (c.only.empty() && s.name != "sod_1d") {
    { Quiet q; for (auto &kv : held) masa_set_param<Scalar>(kv.first, (Scalar)(kv.second * 1.0625L)); }
    auto held2 = read_params<Scalar>(names); p.clear(); for (auto &kv : held2) p[kv.first] = Q(kv.second);
    prefix = "after set_param: "; poison(); evaluate_all(); mirror(); prefix.clear(); }
  // Third phase, one case in eight: the rounding mode is ambient process state as well (an application that does interval arithmetic or
  // reproduces a directed-rounding run leaves it set). The values the properties name do not depend on it beyond roundoff: every evaluator
  // is called once more, at the same point with the parameters of the last phase, under FE_UPWARD, FE_DOWNWARD or FE_TOWARDZERO (a pure
  // function of the case) and must meet the same reference within DIRECTED_K_FACTOR * K: directed rounding turns the random walk of the
  // rounding errors into a drift, so the tolerance is wider (calibration in DESIGN.md 8.8), but an iteration that no longer converges, a
  // comparison that flips or a guard that bails out is off by many orders of magnitude more.
  // Not at the channel centreline of rans_sa (eta == 1 exactly): there du = a1 - a1*eta is an exact zero whose SIGN is the rounding mode's
  // (x - x is -0 under FE_DOWNWARD), r = nu/(s kappa^2 eta^2) is +inf (limited to 10) or -inf (NaN in g) accordingly. The unchanged library
  // returns NaN there under FE_DOWNWARD; C05 speaks about the closure at admissible points and makes no promise about the sign of a zero
  // divisor under a non-default rounding mode, so the first version of this phase raised a false alarm (DESIGN.md 8.8).
  const bool sign_of_zero_point = s.name == "rans_sa" && c.pt[0] == 1;
  if (c.only.empty() && !sign_of_zero_point && case_hash(c) % 8 == 5) { static const int modes[3] = {FE_UPWARD, FE_DOWNWARD, FE_TOWARDZERO}; static const char *mn[3] = {"upward", "downward", "toward zero"};
    int k = (int)((case_hash(c) >> 3) % 3); rmode = modes[k]; Kuse = K * DIRECTED_K_FACTOR; prefix = std::string("rounding ") + mn[k] + ": ";
    evaluate_all(); std::fesetround(FE_TONEAREST); rmode = -1; Kuse = K; prefix.clear(); }
  verify_bystander("end of case");
  if (s.relations && c.only.empty() && prop != "C07") { try { s.relations(c, p, out, K); } catch (std::exception &ex) { Outcome o; o.label = "relations"; o.status = 1; o.err = 1e300; o.note = ex.what(); out.push_back(o); } }
  return out;
}

std::vector<Outcome> run_case(const Spec &s, const NumCase &c, double K, const std::string &prop) { return c.prec ? run_t<long double>(s, c, K, prop) : run_t<double>(s, c, K, prop); }

std::string case_to_text(const NumCase &c, const std::string &prop, const std::string &label) {
  std::ostringstream o; o << "verif-numcase 1\nprop " << prop << "\nlabel " << label << "\nsol " << c.sol << "\nprec " << (c.prec ? "ld" : "d") << "\npt";
  for (int i = 0; i < 4; i++) o << " " << hexld(c.pt[i]); o << "\ncb " << c.cb_kind; for (int i = 0; i < 3; i++) o << " " << hexld(c.cb[i]); o << "\nvec " << c.vec.size(); for (auto v : c.vec) o << " " << hexld(v); o << "\n";
  for (auto &kv : c.params) o << "param " << kv.first << " " << hexld(kv.second) << "   # " << decld(kv.second) << "\n";
  return o.str();
}
bool case_from_text(const std::string &text, NumCase &c, std::string &prop) {
  std::istringstream in(text); std::string line; bool ok = false;
  while (std::getline(in, line)) { auto h = line.find('#'); if (h != std::string::npos) line = line.substr(0, h); std::istringstream l(line); std::string k; if (!(l >> k)) continue;
    if (k == "verif-numcase") ok = true; else if (k == "prop") l >> prop; else if (k == "label") { std::getline(l, c.only); size_t a = c.only.find_first_not_of(' '); c.only = a == std::string::npos ? "" : c.only.substr(a); while (!c.only.empty() && c.only.back() == ' ') c.only.pop_back(); }
    else if (k == "sol") l >> c.sol; else if (k == "prec") { std::string s; l >> s; c.prec = s == "ld"; }
    else if (k == "pt") { std::string s; for (int i = 0; i < 4 && (l >> s); i++) c.pt[i] = parseld(s); }
    else if (k == "cb") { std::string s; l >> c.cb_kind; for (int i = 0; i < 3 && (l >> s); i++) c.cb[i] = parseld(s); }
    else if (k == "vec") { size_t n; std::string s; l >> n; c.vec.clear(); while (l >> s) c.vec.push_back(parseld(s)); }
    else if (k == "param") { std::string n, s; l >> n >> s; c.params[n] = parseld(s); } }
  return ok;
}
std::string case_to_json(const NumCase &c, const std::vector<Outcome> *o) {
  std::ostringstream j; j << "{\"solution\":\"" << c.sol << "\",\"scalar\":\"" << (c.prec ? "long double" : "double") << "\",\"point\":[";
  const Spec *s = find_spec(c.sol); int n = s ? s->nargs : 4; for (int i = 0; i < n; i++) j << (i ? "," : "") << "\"" << decld(c.pt[i]) << "\"";
  j << "],\"parameters\":{"; bool f = true; int cnt = 0; for (auto &kv : c.params) { if (cnt++ >= 40) { j << ",\"...\":\"" << c.params.size() - 40 << " more\""; break; } j << (f ? "" : ",") << "\"" << kv.first << "\":\"" << decld(kv.second) << "\""; f = false; } j << "}";
  if (c.sol == "euler_chem_1d") j << ",\"K_eq\":{\"kind\":" << c.cb_kind << ",\"c\":[\"" << decld(c.cb[0]) << "\",\"" << decld(c.cb[1]) << "\",\"" << decld(c.cb[2]) << "\"]}";
  if (o) { j << ",\"results\":["; f = true; int k = 0; for (auto &r : *o) { if (k++ >= 12) break; j << (f ? "" : ",") << "{\"evaluator\":\"" << jesc(r.label) << "\",\"library\":\"" << decld(r.lib) << "\",\"reference\":\"" << str(r.ref).c_str() << "\",\"err_in_eps_mag\":" << (r.err < 1e299 ? r.err : 1e299) << ",\"status\":" << r.status << "}"; f = false; } j << "]"; }
  j << "}"; return j.str();
}
