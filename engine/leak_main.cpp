// C19, live-byte accounting: global operator new/delete are replaced by counting versions (no library hook).
// Generated init sequences over a handle pool; invariants:
//   (1) re-initialising an existing handle with the solution type it already holds leaves the number of live bytes unchanged;
//   (2) the growth caused by a given (handle slot state, solution type) initialisation is the same every time it is repeated
//       from the same state, i.e. memory does not grow with the number of masa_init calls or with the size of the catalogue;
//   (3) after the reset hook the live-byte count returns to its value before the history.
//   leak --seed N --cases M --out stats.json --faildir DIR      |   leak --replay FILE
#include <rapidcheck.h>
#include "util.hpp"
#include <masa.h>
#include <new>
#include <sys/stat.h>
namespace MASA { void masa_verif_reset(); }
static long long g_live = 0; static bool g_count = true;
struct Hdr { size_t n; size_t pad; };
void *operator new(size_t n) { Hdr *h = (Hdr *)malloc(n + sizeof(Hdr)); if (!h) throw std::bad_alloc(); h->n = n; g_live += (long long)n; return h + 1; }
void *operator new[](size_t n) { return operator new(n); }
void operator delete(void *p) noexcept { if (!p) return; Hdr *h = (Hdr *)p - 1; g_live -= (long long)h->n; free(h); }
void operator delete[](void *p) noexcept { operator delete(p); }
void operator delete(void *p, size_t) noexcept { operator delete(p); }
void operator delete[](void *p, size_t) noexcept { operator delete(p); }

static std::vector<std::string> g_cat;
struct Step { int h, s, prec; };
static const char *HN[] = {"h0", "h1", "h2", "h3"};
template <class S> static void init(const Step &st) { Quiet q; MASA::masa_init<S>(HN[st.h], g_cat[st.s]); }
static void do_init(const Step &st) { if (st.prec) init<long double>(st); else init<double>(st); }

// returns "" when the accounting holds
static std::string run(const std::vector<Step> &steps, long &checks) {
  { Quiet q; MASA::masa_verif_reset(); }
  // warm-up: touch every code path once so that lazily allocated library/runtime state (locale facets, iostream buffers) exists
  { Step w{0, 0, 0}; do_init(w); Step w2{0, 0, 1}; do_init(w2); Quiet q; MASA::masa_verif_reset(); }
  long long base = g_live;
  for (size_t i = 0; i < steps.size(); i++) { const Step &st = steps[i]; do_init(st); do_init(st); long long l2 = g_live;   // the handle now holds this type
    // repeat the very same initialisation: nothing may grow, however often it is repeated
    do_init(st); long long l3 = g_live; do_init(st); long long l4 = g_live; checks += 2;
    if (l3 != l2 || l4 != l2) return "step " + std::to_string(i) + ": re-initialising handle " + HN[st.h] + " with the " + g_cat[st.s] + " it already holds changed the live bytes by " + std::to_string(l3 - l2) + " and then " + std::to_string(l4 - l3) + " (memory grows with the number of masa_init calls)"; }
  { Quiet q; MASA::masa_verif_reset(); } checks++;
  if (g_live != base) return "after releasing both registries " + std::to_string(g_live - base) + " bytes allocated during the history are still live (not owned by any registry: leaked)";
  return ""; }

static std::string to_text(const std::vector<Step> &s) { std::string t = "verif-leakcase 1\n"; for (auto &x : s) t += "init " + std::to_string(x.prec) + " " + std::to_string(x.h) + " " + std::to_string(x.s) + " # " + (x.prec ? "long double " : "double ") + HN[x.h] + " <- " + g_cat[x.s] + "\n"; return t; }
int main(int argc, char **argv) {
  if (!freopen("/dev/null", "w", stdout)) {}
  { Quiet q; MASA::masa_printid<double>(); std::stringstream ss(q.str()); std::string l; int bars = 0; while (std::getline(ss, l)) { if (l.find("*-----") != std::string::npos) { bars++; continue; } if (bars == 1 && !l.empty()) g_cat.push_back(l); } }
  if (const char *rf = arg_value(argc, argv, "--replay")) { std::ifstream f(rf); std::string l; std::vector<Step> steps; while (std::getline(f, l)) { Step s; if (sscanf(l.c_str(), "init %d %d %d", &s.prec, &s.h, &s.s) == 3) { s.s %= (int)g_cat.size(); s.h &= 3; s.prec &= 1; steps.push_back(s); } } long c = 0; std::string r = run(steps, c); fprintf(stderr, "%s\nREPLAY %s\n", r.c_str(), r.empty() ? "pass" : "violation"); return r.empty() ? 0 : 1; }
  uint64_t seed = strtoull(arg_value(argc, argv, "--seed", "1"), 0, 10); int cases = atoi(arg_value(argc, argv, "--cases", "100")); std::string faildir = arg_value(argc, argv, "--faildir", "."); stats().path = arg_value(argc, argv, "--out", ""); mkdir(faildir.c_str(), 0755); Stats &st = stats(); long budget = -1;
  rc::detail::TestParams tp; tp.seed = mix64(seed ^ 0x1eac); tp.maxSuccess = cases; tp.maxSize = 40; rc::detail::TestMetadata md; md.id = "C19:live-bytes"; md.description = md.id;
  auto fn = [&]() { if (budget == 0) return; if (budget > 0) budget--;
    auto raw = *rc::gen::container<std::vector<std::vector<int>>>(rc::gen::container<std::vector<int>>(3, rc::gen::resize(rc::kNominalSize, rc::gen::inRange(0, 1 << 20))));
    std::vector<Step> steps; for (auto &r : raw) steps.push_back(Step{r[0] % 4, r[1] % (int)g_cat.size(), r[2] % 2});
    long checks = 0; std::string r = run(steps, checks); st.count("cases"); st.count("evaluations", checks); std::set<int> types; std::set<int> hs; for (auto &s : steps) { types.insert(s.s); hs.insert(s.h * 2 + s.prec); }
    bool nt = steps.size() >= 2 && types.size() >= 2 && hs.size() < steps.size(); if (nt) { st.count("class:nontrivial(>=2 types, a handle re-used)"); Hasher h; h.str(to_text(steps)); st.distinct.insert(h.h); }
    if (nt && st.samples.size() < 6 && st.counters["cases"] % 17 == 1) st.sample("{\"inits\":\"" + jesc(to_text(steps)) + "\"}");
    if (!r.empty()) { std::ofstream(faildir + "/fail_leak.case") << to_text(steps); std::ofstream(faildir + "/fail_leak.txt") << r; if (budget < 0) budget = 300; RC_FAIL(r); } };
  auto result = rc::detail::checkTestable(fn, md, tp); int failures = 0;
  if (!result.template is<rc::detail::SuccessResult>()) { failures++; std::ifstream t(faildir + "/fail_leak.txt"); std::stringstream note; note << t.rdbuf(); st.findings.push_back("{\"violation\":true,\"sub\":\"" + jesc(note.str().substr(0, 400)) + "\",\"file\":\"" + jesc(faildir + "/fail_leak.case") + "\"}"); }
  st.flush(); return failures ? 1 : 0;
}
