// Solution table for the numerical properties: generators (construction, not rejection), library
// entry points in both precisions, reference operators, known as-built forms, relations.
#include "specs.hpp"
#include <masa.h>
#include <algorithm>
using namespace MASA;
namespace MASA { void masa_verif_reset(); }

typedef std::map<std::string, long double> PV;

// ------------------------------------------------------------------ callback family (euler_chem_1d)
static int g_cb_kind = 0; static long double g_cb[3] = {1, 0, 0};
void set_callback(int kind, const long double c[3]) { g_cb_kind = kind; for (int i = 0; i < 3; i++) g_cb[i] = c[i]; }
template <class S> static S keq_any(S T, S c0, S c1, S c2, int kind) {
  using std::exp; using std::pow; using std::log;
  if (kind == 0) return c0;                                   // constant
  if (kind == 1) return c0 * exp(c1 * log(T)) * exp(-c2 / T); // Arrhenius-like  A T^n exp(-E/T)
  S s = T / S(1000); return c0 + c1 * s + c2 * s * s;         // positive quadratic
}
double keq_d(double T) { return keq_any<double>(T, (double)g_cb[0], (double)g_cb[1], (double)g_cb[2], g_cb_kind); }
long double keq_ld(long double T) { return keq_any<long double>(T, g_cb[0], g_cb[1], g_cb[2], g_cb_kind); }
Q keq_q(Q T) { Q c0(g_cb[0]), c1(g_cb[1]), c2(g_cb[2]);
  if (g_cb_kind == 0) return c0;
  if (g_cb_kind == 1) return c0 * exp(c1 * log(T)) * exp(-c2 / T);
  Q s = T / Q(1000); return c0 + c1 * s + c2 * s * s; }

static std::vector<Q> g_vec; const std::vector<Q> &current_vec() { return g_vec; } void set_current_vec(const std::vector<Q> &v) { g_vec = v; }

// ------------------------------------------------------------------ generator helpers
static long double band(Draw &d) { long double v = d.U(0.5L, 2.0L); return d.coin(0.3) ? -v : v; }
static long double pband(Draw &d) { return d.U(0.5L, 2.0L); }
// dominance sweep: multiply by 10^U(-3,3) with probability p (always consumes the same entropy)
static long double sweepf(Draw &d, bool on, double p) { bool c = d.coin(p); long double e = d.U(-3.0L, 3.0L); return (on && c) ? powl(10.0L, e) : 1.0L; }
static bool starts(const std::string &s, const char *p) { return s.rfind(p, 0) == 0; }

// Roy-type gas: fields f in {rho,p,(nu_sa)} need f_0 > sum |amplitudes|
static void roy_gas(Draw &d, PV &p, bool sweep, double sp, const std::vector<std::string> &posfields) {
  for (auto &kv : p) {
    const std::string &n = kv.first;
    long double v = band(d); long double f = sweepf(d, sweep, sp);
    if (n == "Gamma" || n == "gamma") { kv.second = d.U(1.05L, 3.0L); continue; }
    if (n == "L") { long double l = d.logU(0.3L, 30.0L); kv.second = d.coin(0.3) ? -l : l; continue; }
    if (n == "R") { kv.second = pband(d) * f; continue; }
    kv.second = v * f;
    // wave numbers: one in five is a small whole number (single-mode set-ups; with lattice points the phase a*x/L then lands exactly on nodes and antinodes)
    { bool ig = d.coin(0.2); int iv = d.range(1, 3); bool ng = d.coin(0.3); if (ig && starts(n, "a_")) kv.second = ng ? -(long double)iv : (long double)iv; }
  }
  for (auto &fld : posfields) {
    std::string b = fld + "_0"; if (!p.count(b)) continue;
    long double sum = 0;
    for (auto &kv : p) { const std::string &n = kv.first; if (n != b && starts(n, (fld + "_").c_str()) && n.find('_', fld.size() + 1) == std::string::npos) {
        // amplitudes of a positive field are kept moderate relative to each other
        sum += fabsl(kv.second); } }
    p[b] = 1.5L * sum + fabsl(p[b]) + 0.05L;
  }
}

// points: mostly a box of a few wavelengths; one coordinate in twelve is exactly 0, one in ten lies far out (|x| up to 50, tiny |x| down to 1e-4),
// the time is negative in 15% and exactly 0 in 8% of the cases (every draw consumes the same entropy)
static void box(Draw &d, long double *pt, int nsp, bool tr, long double L = 1) {
  // lattice points: what a user's loop over a mesh produces and a continuous draw never does (x = 0.5, x = L, integer coordinates, x = L/2 ...);
  // one coordinate in ten is put on the lattice, in units of 1 or of the solution's length scale L
  static const long double lat[] = {0.25L, 0.5L, 1.0L, 2.0L, 3.0L, 1.5L, 4.0L, 0.125L};
  if (!(fabsl(L) > 0) || !std::isfinite((double)L)) L = 1;
  for (int i = 0; i < nsp; i++) { long double v = d.U(0.05L, 2.0L); bool neg = d.coin(0.5); bool zero = d.coin(0.08); bool far = d.coin(0.1); long double w = d.logU(1e-4L, 50.0L); bool grid = d.coin(0.1); int gk = d.range(0, 7); bool inL = d.coin(0.5);
    if (far) v = w; if (grid) v = lat[gk] * (inL ? fabsl(L) : 1.0L); if (zero) v = 0; pt[i] = neg ? -v : v; }
  if (tr) { long double v = d.U(0.01L, 3.0L); bool neg = d.coin(0.15); bool zero = d.coin(0.08); bool far = d.coin(0.08); long double w = d.logU(1e-4L, 40.0L); bool grid = d.coin(0.1); int gk = d.range(0, 7);
    if (far) v = w; if (grid) v = lat[gk]; if (zero) v = 0; pt[nsp] = neg ? -v : v; } }

// ------------------------------------------------------------------ library entry points
#define A1 (a[0])
#define A2 (a[0], a[1])
#define A3 (a[0], a[1], a[2])
#define A4 (a[0], a[1], a[2], a[3])
#define LIB(fn, ARGS) [](const long double *a) -> long double { return fn<long double> ARGS; }, [](const double *a) -> double { return fn<double> ARGS; }
static Ev mk(const std::string &label, int kind, std::function<long double(const long double *)> ld, std::function<double(const double *)> dd, std::function<Q(const PM &, const Q *)> ref) {
  Ev e; e.label = label; e.kind = kind; e.ld = ld; e.d = dd; e.ref = ref; return e; }
#define EV(label, kind, fn, ARGS, ...) mk(label, kind, LIB(fn, ARGS), [=](const PM &p, const Q *x) -> Q { __VA_ARGS__ })

static std::vector<Spec> build() {
  std::vector<Spec> S;
  // ================================================================ C01 heat
  {
    const char *kinds[4] = {"steady_const", "steady_var", "unsteady_const", "unsteady_var"};
    for (int dim = 1; dim <= 3; dim++) for (int k = 0; k < 4; k++) {
      Spec s; s.name = "heateq_" + std::to_string(dim) + "d_" + kinds[k]; s.props = {"C01", "C09"};
      bool uns = k >= 2; int n = dim + (uns ? 1 : 0); s.nargs = n;
      s.gen = [](Draw &d, PV &p, bool sweep) { for (auto &kv : p) { long double v = band(d); long double f = sweepf(d, sweep, 0.33); kv.second = v * f; } };
      s.genpt = [dim, uns](Draw &d, long double *pt, const PV &p) { box(d, pt, dim, uns); };
      auto ref = [dim, uns](const PM &p, const Q *x) { return Heat::ref(p, x, dim, uns); };
      Ev e; e.label = "source_t"; e.kind = 0; e.ref = ref;
      if (n == 1) { e.ld = [](const long double *a) { return masa_eval_source_t<long double>(a[0]); }; e.d = [](const double *a) { return masa_eval_source_t<double>(a[0]); }; }
      if (n == 2) { e.ld = [](const long double *a) { return masa_eval_source_t<long double>(a[0], a[1]); }; e.d = [](const double *a) { return masa_eval_source_t<double>(a[0], a[1]); }; }
      if (n == 3) { e.ld = [](const long double *a) { return masa_eval_source_t<long double>(a[0], a[1], a[2]); }; e.d = [](const double *a) { return masa_eval_source_t<double>(a[0], a[1], a[2]); }; }
      if (n == 4) { e.ld = [](const long double *a) { return masa_eval_source_t<long double>(a[0], a[1], a[2], a[3]); }; e.d = [](const double *a) { return masa_eval_source_t<double>(a[0], a[1], a[2], a[3]); }; }
      s.evals.push_back(e);
      bool has_exact = (k == 0) || (k == 2 && dim == 2);
      if (has_exact) { Ev x; x.label = "exact_t"; x.kind = 1; x.ref = [dim, uns](const PM &p, const Q *q) { return Heat::fld(p, q, dim, uns); };
        if (n == 1) { x.ld = [](const long double *a) { return masa_eval_exact_t<long double>(a[0]); }; x.d = [](const double *a) { return masa_eval_exact_t<double>(a[0]); }; }
        if (n == 2) { x.ld = [](const long double *a) { return masa_eval_exact_t<long double>(a[0], a[1]); }; x.d = [](const double *a) { return masa_eval_exact_t<double>(a[0], a[1]); }; }
        if (n == 3) { x.ld = [](const long double *a) { return masa_eval_exact_t<long double>(a[0], a[1], a[2]); }; x.d = [](const double *a) { return masa_eval_exact_t<double>(a[0], a[1], a[2]); }; }
        s.evals.push_back(x); }
      S.push_back(s);
    }
  }
  // ================================================================ C02 Euler family, C03 Cartesian NS, C07 gradients
  auto gasgen = [](Draw &d, PV &p, bool sweep) { roy_gas(d, p, sweep, 0.33, {"rho", "p"}); };
  auto cartspec = [&](const std::string &name, int nsp, bool tr, bool visc, bool rho_names, bool grads) {
    Spec s; s.name = name; s.props = {visc ? "C03" : "C02", "C09"}; if (grads) s.props.push_back("C07"); s.nargs = nsp + (tr ? 1 : 0);
    s.gen = gasgen; s.genpt = [nsp, tr](Draw &d, long double *pt, const PV &p) { auto it = p.find("L"); box(d, pt, nsp, tr, it == p.end() ? 1.0L : it->second); };
    int n = s.nargs;
    // sources: label -> equation index
    struct SrcDef { const char *label; int eq; int minsp; };
    std::vector<SrcDef> src = {{"source_rho", 0, 1}, {rho_names ? "source_rho_u" : "source_u", 1, 1}, {rho_names ? "source_rho_v" : "source_v", 2, 2}, {rho_names ? "source_rho_w" : "source_w", 3, 3}, {rho_names ? "source_rho_e" : "source_e", 4, 1}};
    for (auto &sd : src) { if (nsp < sd.minsp) continue; Ev e; e.label = sd.label; e.kind = 0; int eq = sd.eq;
      e.ref = [nsp, tr, visc, eq](const PM &p, const Q *x) { return CartRoy::ref(p, x, nsp, tr, visc, eq); };
      std::string L = sd.label;
#define PICK(lbl, fn) if (L == lbl) { \
        if (n == 1) { e.ld = [](const long double *a) { return fn<long double>(a[0]); }; e.d = [](const double *a) { return fn<double>(a[0]); }; } \
        if (n == 2) { e.ld = [](const long double *a) { return fn<long double>(a[0], a[1]); }; e.d = [](const double *a) { return fn<double>(a[0], a[1]); }; } \
        if (n == 3) { e.ld = [](const long double *a) { return fn<long double>(a[0], a[1], a[2]); }; e.d = [](const double *a) { return fn<double>(a[0], a[1], a[2]); }; } \
        if (n == 4) { e.ld = [](const long double *a) { return fn<long double>(a[0], a[1], a[2], a[3]); }; e.d = [](const double *a) { return fn<double>(a[0], a[1], a[2], a[3]); }; } }
      PICK("source_rho", masa_eval_source_rho) PICK("source_rho_u", masa_eval_source_rho_u) PICK("source_rho_v", masa_eval_source_rho_v) PICK("source_rho_w", masa_eval_source_rho_w) PICK("source_rho_e", masa_eval_source_rho_e)
      PICK("source_u", masa_eval_source_u) PICK("source_v", masa_eval_source_v) PICK("source_w", masa_eval_source_w) PICK("source_e", masa_eval_source_e)
      s.evals.push_back(e); }
    struct FDef { const char *label; int which; int minsp; };
    std::vector<FDef> fl = {{"exact_rho", 0, 1}, {"exact_u", 1, 1}, {"exact_v", 2, 2}, {"exact_w", 3, 3}, {"exact_p", 4, 1}};
    for (auto &fd : fl) { if (nsp < fd.minsp) continue; Ev e; e.label = fd.label; e.kind = 1; int which = fd.which;
      e.ref = [nsp, tr, which](const PM &p, const Q *x) { return CartRoy::fld(p, x, nsp, tr, which); };
      std::string L = fd.label;
      PICK("exact_rho", masa_eval_exact_rho) PICK("exact_u", masa_eval_exact_u) PICK("exact_v", masa_eval_exact_v) PICK("exact_w", masa_eval_exact_w) PICK("exact_p", masa_eval_exact_p)
      s.evals.push_back(e); }
    if (grads) {
      struct GD { const char *f; int which; int minsp; };
      std::vector<GD> gl = {{"rho", 0, 1}, {"u", 1, 1}, {"v", 2, 2}, {"w", 3, 3}, {"p", 4, 1}};
      for (auto &g : gl) { if (nsp < g.minsp) continue; std::string F = g.f; int which = g.which;
        if (nsp == 1) { Ev e; e.kind = 2; e.label = "grad_" + F; e.ref = [which](const PM &p, const Q *x) { return CartRoy::grad(p, x, 1, which, 0); };
          if (F == "rho") { e.ld = [](const long double *a) { return masa_eval_grad_rho<long double>(a[0]); }; e.d = [](const double *a) { return masa_eval_grad_rho<double>(a[0]); }; }
          if (F == "u") { e.ld = [](const long double *a) { return masa_eval_grad_u<long double>(a[0]); }; e.d = [](const double *a) { return masa_eval_grad_u<double>(a[0]); }; }
          if (F == "p") { e.ld = [](const long double *a) { return masa_eval_grad_p<long double>(a[0]); }; e.d = [](const double *a) { return masa_eval_grad_p<double>(a[0]); }; }
          s.evals.push_back(e); continue; }
        for (int i = -3; i <= nsp + 3; i++) { Ev e; e.kind = 2; e.label = "grad_" + F + "[" + std::to_string(i) + "]";
          bool valid = i >= 1 && i <= nsp; e.expect_err = valid ? 0 : 1;
          e.ref = [nsp, which, i, valid](const PM &p, const Q *x) { return valid ? CartRoy::grad(p, x, nsp, which, i - 1) : Q(-1); };
#define GPICK(fld, fn) if (F == fld) { \
          if (nsp == 2) { e.ld = [i](const long double *a) { return fn<long double>(a[0], a[1], i); }; e.d = [i](const double *a) { return fn<double>(a[0], a[1], i); }; } \
          if (nsp == 3) { e.ld = [i](const long double *a) { return fn<long double>(a[0], a[1], a[2], i); }; e.d = [i](const double *a) { return fn<double>(a[0], a[1], a[2], i); }; } }
          GPICK("rho", masa_eval_grad_rho) GPICK("u", masa_eval_grad_u) GPICK("v", masa_eval_grad_v) GPICK("w", masa_eval_grad_w) GPICK("p", masa_eval_grad_p)
          s.evals.push_back(e); } } }
    return s;
  };
  S.push_back(cartspec("euler_1d", 1, false, false, true, true));
  S.push_back(cartspec("euler_2d", 2, false, false, true, true));
  S.push_back(cartspec("euler_3d", 3, false, false, true, true));
  S.push_back(cartspec("euler_transient_1d", 1, true, false, true, false));
  S.push_back(cartspec("euler_transient_2d", 2, true, false, false, false));
  S.push_back(cartspec("euler_transient_3d", 3, true, false, false, false));
  S.push_back(cartspec("navierstokes_2d_compressible", 2, false, true, true, true));
  S.push_back(cartspec("navierstokes_3d_compressible", 3, false, true, true, true));

  // ---- axisymmetric four
  auto axispec = [&](const std::string &name, int variant, bool tr, bool visc) {
    Spec s; s.name = name; s.props = {visc ? "C03" : "C02", "C09"}; s.nargs = tr ? 3 : 2;
    s.gen = gasgen;
    s.genpt = [tr](Draw &d, long double *pt, const PV &) { pt[0] = d.logU(0.05L, 5.0L); long double z = d.U(0.05L, 2.0L); pt[1] = d.coin(0.5) ? -z : z; if (tr) pt[2] = d.U(0.01L, 3.0L);
      // mesh-like values (r stays positive): r, z and t on a lattice in one case of ten each, z = 0 and t = 0 included
      static const long double lat[] = {0.25L, 0.5L, 1.0L, 2.0L, 3.0L, 1.5L, 4.0L, 0.125L}; bool gr = d.coin(0.1), gz = d.coin(0.1), gt = d.coin(0.1); int kr = d.range(0, 7), kz = d.range(0, 8), kt = d.range(0, 8); bool nz = d.coin(0.5);
      if (gr) pt[0] = lat[kr]; if (gz) pt[1] = kz == 8 ? 0.0L : (nz ? -lat[kz] : lat[kz]); if (tr && gt) pt[2] = kt == 8 ? 0.0L : lat[kt]; };
    const char *lab_s[4] = {"source_rho", "source_rho_u", "source_rho_w", "source_rho_e"}; const char *lab_t[4] = {"source_rho", "source_u", "source_w", "source_e"};
    for (int eq = 0; eq < 4; eq++) { Ev e; e.kind = 0; e.label = tr ? lab_t[eq] : lab_s[eq];
      e.ref = [variant, tr, visc, eq](const PM &p, const Q *x) { return Axi::ref(p, x, variant, tr, visc, eq); };
      if (visc && eq >= 1) { // known finding: the tree's viscous terms use tau_rz = mu du/dz, no hoop stress; steady energy: viscous work sign
        AxiVariant v; v.asbuilt_stress = true; v.asbuilt_work_sign = (!tr && eq == 3);
        e.asbuilt = [variant, tr, eq, v](const PM &p, const Q *x) { return Axi::ref(p, x, variant, tr, true, eq, v); };
        e.finding = name + "/" + e.label; }
      if (!tr) { switch (eq) {
          case 0: e.ld = [](const long double *a) { return masa_eval_source_rho<long double>(a[0], a[1]); }; e.d = [](const double *a) { return masa_eval_source_rho<double>(a[0], a[1]); }; break;
          case 1: e.ld = [](const long double *a) { return masa_eval_source_rho_u<long double>(a[0], a[1]); }; e.d = [](const double *a) { return masa_eval_source_rho_u<double>(a[0], a[1]); }; break;
          case 2: e.ld = [](const long double *a) { return masa_eval_source_rho_w<long double>(a[0], a[1]); }; e.d = [](const double *a) { return masa_eval_source_rho_w<double>(a[0], a[1]); }; break;
          case 3: e.ld = [](const long double *a) { return masa_eval_source_rho_e<long double>(a[0], a[1]); }; e.d = [](const double *a) { return masa_eval_source_rho_e<double>(a[0], a[1]); }; break; } }
      else { switch (eq) {
          case 0: e.ld = [](const long double *a) { return masa_eval_source_rho<long double>(a[0], a[1], a[2]); }; e.d = [](const double *a) { return masa_eval_source_rho<double>(a[0], a[1], a[2]); }; break;
          case 1: e.ld = [](const long double *a) { return masa_eval_source_u<long double>(a[0], a[1], a[2]); }; e.d = [](const double *a) { return masa_eval_source_u<double>(a[0], a[1], a[2]); }; break;
          case 2: e.ld = [](const long double *a) { return masa_eval_source_w<long double>(a[0], a[1], a[2]); }; e.d = [](const double *a) { return masa_eval_source_w<double>(a[0], a[1], a[2]); }; break;
          case 3: e.ld = [](const long double *a) { return masa_eval_source_e<long double>(a[0], a[1], a[2]); }; e.d = [](const double *a) { return masa_eval_source_e<double>(a[0], a[1], a[2]); }; break; } }
      s.evals.push_back(e); }
    const char *fl[4] = {"exact_rho", "exact_u", "exact_w", "exact_p"};
    for (int w = 0; w < 4; w++) { Ev e; e.kind = 1; e.label = fl[w]; e.ref = [variant, tr, w](const PM &p, const Q *x) { return Axi::fld(p, x, variant, tr, w); };
      if (!tr) { switch (w) {
          case 0: e.ld = [](const long double *a) { return masa_eval_exact_rho<long double>(a[0], a[1]); }; e.d = [](const double *a) { return masa_eval_exact_rho<double>(a[0], a[1]); }; break;
          case 1: e.ld = [](const long double *a) { return masa_eval_exact_u<long double>(a[0], a[1]); }; e.d = [](const double *a) { return masa_eval_exact_u<double>(a[0], a[1]); }; break;
          case 2: e.ld = [](const long double *a) { return masa_eval_exact_w<long double>(a[0], a[1]); }; e.d = [](const double *a) { return masa_eval_exact_w<double>(a[0], a[1]); }; break;
          case 3: e.ld = [](const long double *a) { return masa_eval_exact_p<long double>(a[0], a[1]); }; e.d = [](const double *a) { return masa_eval_exact_p<double>(a[0], a[1]); }; break; } }
      else { switch (w) {
          case 0: e.ld = [](const long double *a) { return masa_eval_exact_rho<long double>(a[0], a[1], a[2]); }; e.d = [](const double *a) { return masa_eval_exact_rho<double>(a[0], a[1], a[2]); }; break;
          case 1: e.ld = [](const long double *a) { return masa_eval_exact_u<long double>(a[0], a[1], a[2]); }; e.d = [](const double *a) { return masa_eval_exact_u<double>(a[0], a[1], a[2]); }; break;
          case 2: e.ld = [](const long double *a) { return masa_eval_exact_w<long double>(a[0], a[1], a[2]); }; e.d = [](const double *a) { return masa_eval_exact_w<double>(a[0], a[1], a[2]); }; break;
          case 3: e.ld = [](const long double *a) { return masa_eval_exact_p<long double>(a[0], a[1], a[2]); }; e.d = [](const double *a) { return masa_eval_exact_p<double>(a[0], a[1], a[2]); }; break; } }
      s.evals.push_back(e); }
    return s;
  };
  S.push_back(axispec("axisymmetric_euler", 0, false, false));
  S.push_back(axispec("axi_euler_transient", 0, true, false));
  S.push_back(axispec("axisymmetric_navierstokes_compressible", 1, false, true));
  S.push_back(axispec("axi_cns_transient", 0, true, true));

  // ---- 4-D power law
  {
    Spec s; s.name = "navierstokes_4d_compressible_powerlaw"; s.props = {"C03", "C07", "C09"}; s.nargs = 4;
    s.gen = [](Draw &d, PV &p, bool sweep) {
      for (auto &kv : p) { const std::string &n = kv.first; long double v = band(d); long double f = sweepf(d, sweep, 0.2);
        if (starts(n, "a_")) kv.second = v * 0.1L * f;        // amplitudes (every one of them non-zero)
        else if (starts(n, "b_") || starts(n, "d_")) kv.second = v * f; // wave numbers
        else if (starts(n, "c_") || starts(n, "e_") || starts(n, "g_")) kv.second = v; // phases
        else if (starts(n, "f_")) kv.second = v * f;          // temporal frequencies
        else kv.second = v; }
      // positive density and temperature: constant terms dominate, their own temporal modulation is kept weak
      for (const char *fld : {"rho", "T"}) { std::string F = fld; long double sum = 0;
        for (auto &kv : p) { const std::string &n = kv.first; if (starts(n, ("a_" + F).c_str()) && n != "a_" + F + "0") sum += fabsl(kv.second); }
        long double fr = d.U(0.01L, 0.2L), ph = d.U(0.01L, 0.3L); p["f_" + F + "0"] = d.coin(0.5) ? -fr : fr; p["g_" + F + "0"] = d.coin(0.5) ? -ph : ph;   // |g + f t| <= 0.9 for t <= 3
        p["a_" + F + "0"] = (1.5L * sum + d.U(0.5L, 3.0L)) / 0.6L; }
      p["gamma"] = d.U(1.05L, 3.0L); p["R"] = pband(d); p["beta"] = d.U(0.2L, 1.5L); p["mu_r"] = pband(d) * sweepf(d, sweep, 0.3); p["T_r"] = d.U(1.0L, 5.0L);
      p["kappa_r"] = band(d) * sweepf(d, sweep, 0.3); p["lambda_r"] = band(d) * sweepf(d, sweep, 0.3);
      for (const char *L : {"Lx", "Ly", "Lz"}) { long double l = d.logU(0.5L, 30.0L); p[L] = d.coin(0.3) ? -l : l; } };
    // rho and T stay positive because |g_0 + f_0 t| <= 0.9 for t in [0, 3]: the time is kept in that window (positions are unrestricted)
    s.genpt = [](Draw &d, long double *pt, const PV &) { box(d, pt, 3, false); long double t = d.U(0.01L, 3.0L); pt[3] = d.coin(0.08) ? 0.0L : t; };
    const char *sl[5] = {"source_rho", "source_rho_u", "source_rho_v", "source_rho_w", "source_rho_e"};
    for (int eq = 0; eq < 5; eq++) { Ev e; e.kind = 0; e.label = sl[eq]; e.ref = [eq](const PM &p, const Q *x) { return NS4::ref(p, x, eq); };
      switch (eq) {
        case 0: e.ld = [](const long double *a) { return masa_eval_source_rho<long double> A4; }; e.d = [](const double *a) { return masa_eval_source_rho<double> A4; }; break;
        case 1: e.ld = [](const long double *a) { return masa_eval_source_rho_u<long double> A4; }; e.d = [](const double *a) { return masa_eval_source_rho_u<double> A4; }; break;
        case 2: e.ld = [](const long double *a) { return masa_eval_source_rho_v<long double> A4; }; e.d = [](const double *a) { return masa_eval_source_rho_v<double> A4; }; break;
        case 3: e.ld = [](const long double *a) { return masa_eval_source_rho_w<long double> A4; }; e.d = [](const double *a) { return masa_eval_source_rho_w<double> A4; }; break;
        case 4: e.ld = [](const long double *a) { return masa_eval_source_rho_e<long double> A4; }; e.d = [](const double *a) { return masa_eval_source_rho_e<double> A4; }; break; }
      s.evals.push_back(e); }
    s.evals.push_back(EV("exact_rho", 1, masa_eval_exact_rho, A4, return NS4::fld(p, x, "rho");));
    s.evals.push_back(EV("exact_u", 1, masa_eval_exact_u, A4, return NS4::fld(p, x, "u");));
    s.evals.push_back(EV("exact_v", 1, masa_eval_exact_v, A4, return NS4::fld(p, x, "v");));
    s.evals.push_back(EV("exact_w", 1, masa_eval_exact_w, A4, return NS4::fld(p, x, "w");));
    s.evals.push_back(EV("exact_t", 1, masa_eval_exact_t, A4, return NS4::fld(p, x, "T");));
    s.evals.push_back(EV("exact_p", 1, masa_eval_exact_p, A4, return NS4::fld(p, x, "p");));
    for (const char *f : {"rho", "u", "v", "w", "p", "T"}) { std::string F = f;
      for (int i = -3; i <= 7; i++) { Ev e; e.kind = 2; e.label = "grad_" + std::string(F == "T" ? "t" : F) + "[" + std::to_string(i) + "]";
        bool valid = i >= 1 && i <= 3; e.expect_err = valid ? 0 : 2;
        e.ref = [F, i, valid](const PM &p, const Q *x) { return valid ? NS4::grad(p, x, F, i - 1) : Q(0); };
#define G4(fld, fn) if (F == fld) { e.ld = [i](const long double *a) { return fn<long double>(a[0], a[1], a[2], a[3], i); }; e.d = [i](const double *a) { return fn<double>(a[0], a[1], a[2], a[3], i); }; }
        G4("rho", masa_eval_grad_rho) G4("u", masa_eval_grad_u) G4("v", masa_eval_grad_v) G4("w", masa_eval_grad_w) G4("p", masa_eval_grad_p) G4("T", masa_eval_grad_t)
        s.evals.push_back(e); } }
    S.push_back(s);
  }
  // ================================================================ C04 Laplace, Burgers
  {
    Spec s; s.name = "laplace_2d"; s.props = {"C04", "C09"}; s.nargs = 2;
    s.gen = [](Draw &d, PV &p, bool sweep) { for (auto &kv : p) { long double l = d.logU(0.3L, 30.0L) * sweepf(d, sweep, 0.2); kv.second = d.coin(0.3) ? -l : l; } };
    s.genpt = [](Draw &d, long double *pt, const PV &) { box(d, pt, 2, false); };
    s.evals.push_back(EV("source_f", 0, masa_eval_source_f, A2, return Lap::ref(p, x);));
    s.evals.push_back(EV("exact_phi", 1, masa_eval_exact_phi, A2, return Lap::phi<Q>(p, x[0], x[1]);));
    S.push_back(s);
  }
  {
    Spec s; s.name = "burgers_equation"; s.props = {"C04", "C09"}; s.nargs = 3;
    s.gen = [](Draw &d, PV &p, bool sweep) { roy_gas(d, p, sweep, 0.33, {}); };
    s.genpt = [](Draw &d, long double *pt, const PV &p) { auto it = p.find("L"); box(d, pt, 2, true, it == p.end() ? 1.0L : it->second); };
    s.evals.push_back(EV("source_u", 0, masa_eval_source_u, A3, return Burg::ref(p, x, 0);));
    s.evals.push_back(EV("source_v", 0, masa_eval_source_v, A3, return Burg::ref(p, x, 1);));
    s.evals.push_back(EV("exact_u", 1, masa_eval_exact_u, A3, return Burg::uv<Q>(p, x[0], x[1], x[2])[0];));
    s.evals.push_back(EV("exact_v", 1, masa_eval_exact_v, A3, return Burg::uv<Q>(p, x[0], x[1], x[2])[1];));
    // two-argument exact fields: the t-independent part of the three-argument ones
    s.evals.push_back(EV("exact_u(x,y)", 1, masa_eval_exact_u, A2, return Burg::uv<Q>(p, x[0], x[1], x[2], false)[0];));
    s.evals.push_back(EV("exact_v(x,y)", 1, masa_eval_exact_v, A2, return Burg::uv<Q>(p, x[0], x[1], x[2], false)[1];));
    S.push_back(s);
  }
  // ================================================================ C05 Spalart-Allmaras
  {
    Spec s; s.name = "rans_sa"; s.props = {"C05", "C09"}; s.nargs = 1;
    s.gen = [](Draw &d, PV &p, bool sweep) { for (auto &kv : p) { long double f = d.U(0.6L, 1.4L); long double g = sweepf(d, sweep, 0.15); if (kv.first == "re_tau") f *= powl(g, 1.0L / 3) * d.logU(0.1L, 10.0L); kv.second *= f; } };
    s.genpt = [](Draw &d, long double *pt, const PV &) { pt[0] = d.U(0.01L, 0.99L); static const long double lat[] = {1.0L, 0.5L, 0.25L, 0.75L, 0.125L, 1.0L}; bool g = d.coin(0.12); int k = d.range(0, 5); if (g) pt[0] = lat[k]; };   // mesh nodes of a half channel, the centreline eta = 1 included
    auto skip = [](const PM &p, const Q *x) { Channel::Aux a; Channel::ref(p, x, 1, &a); __float128 sw = a.Sbar.v + a.cv2.v * a.Om.v; return fabsq(sw) < 1e-6Q * (fabsq(a.Sbar.v) + fabsq(a.cv2.v * a.Om.v)) || fabsq(a.r.v - 10) < 1e-6Q; };
    s.evals.push_back(EV("source_u", 0, masa_eval_source_u, A1, return Channel::ref(p, x, 0);));
    { Ev e = EV("source_v", 0, masa_eval_source_v, A1, return Channel::ref(p, x, 1);); e.skip = skip; s.evals.push_back(e); }
    s.evals.push_back(EV("exact_u", 1, masa_eval_exact_u, A1, return Channel::fld<Q>(x[0])[0];));
    s.evals.push_back(EV("exact_v", 1, masa_eval_exact_v, A1, return Channel::fld<Q>(x[0])[1];));
    S.push_back(s);
  }
  {
    Spec s; s.name = "fans_sa_transient_free_shear"; s.props = {"C05", "C09"}; s.nargs = 3;
    s.gen = [](Draw &d, PV &p, bool sweep) { roy_gas(d, p, sweep, 0.25, {"rho", "p", "nu_sa"});
      p["mu"] = d.logU(0.05L, 5.0L); p["Pr"] = d.U(0.5L, 1.0L); p["Pr_t"] = d.U(0.5L, 1.0L); p["sigma"] = d.U(0.5L, 1.0L); p["c_v1"] = d.U(3.0L, 9.0L); p["R"] = pband(d) * (d.coin(0.3) ? 100.0L : 1.0L); };
    s.genpt = [](Draw &d, long double *pt, const PV &p) { auto it = p.find("L"); box(d, pt, 2, true, it == p.end() ? 1.0L : it->second); };
    auto skipnu = [](const PM &p, const Q *x) { Q om = FreeShear::vorticity(p, x); return fabsq(om.v) < 1e-9Q * om.m; };
    struct D { const char *label; int eq; };
    for (int eq = 0; eq < 5; eq++) {
      Ev e; e.kind = 0; const char *lab[5] = {"source_rho", "source_rho_u", "source_rho_v", "source_rho_e", "source_nu"}; e.label = lab[eq];
      e.ref = [eq](const PM &p, const Q *x) { return FreeShear::ref(p, x, eq, 0); };
      if (eq >= 1 && eq <= 3) { e.asbuilt = [eq](const PM &p, const Q *x) { return FreeShear::ref(p, x, eq, 1); }; e.finding = std::string("fans_sa_transient_free_shear/") + lab[eq]; }
      if (eq == 4) e.skip = skipnu;
      switch (eq) {
        case 0: e.ld = [](const long double *a) { return masa_eval_source_rho<long double> A3; }; e.d = [](const double *a) { return masa_eval_source_rho<double> A3; }; break;
        case 1: e.ld = [](const long double *a) { return masa_eval_source_rho_u<long double> A3; }; e.d = [](const double *a) { return masa_eval_source_rho_u<double> A3; }; break;
        case 2: e.ld = [](const long double *a) { return masa_eval_source_rho_v<long double> A3; }; e.d = [](const double *a) { return masa_eval_source_rho_v<double> A3; }; break;
        case 3: e.ld = [](const long double *a) { return masa_eval_source_rho_e<long double> A3; }; e.d = [](const double *a) { return masa_eval_source_rho_e<double> A3; }; break;
        case 4: e.ld = [](const long double *a) { return masa_eval_source_nu<long double> A3; }; e.d = [](const double *a) { return masa_eval_source_nu<double> A3; }; break; }
      s.evals.push_back(e); }
    s.evals.push_back(EV("exact_nu", 1, masa_eval_exact_nu, A3, return FreeShear::field(p, x, 4);));
    // two-argument fields: the API returns the t-independent (spatial) part of u, v, p, rho -- as for Burgers -- and nu at t = 0
    auto spatial = [](const PM &p, const Q *x, int which) { PM q = p; for (const char *n : {"u_t", "v_t", "p_t", "rho_t"}) q[n] = Q(0); Q y[3] = {x[0], x[1], Q(0)}; return FreeShear::field(q, y, which); };
    s.evals.push_back(EV("exact_rho(x,y)", 1, masa_eval_exact_rho, A2, return spatial(p, x, 0);));
    s.evals.push_back(EV("exact_u(x,y)", 1, masa_eval_exact_u, A2, return spatial(p, x, 1);));
    s.evals.push_back(EV("exact_v(x,y)", 1, masa_eval_exact_v, A2, return spatial(p, x, 2);));
    s.evals.push_back(EV("exact_p(x,y)", 1, masa_eval_exact_p, A2, return spatial(p, x, 3);));
    s.evals.push_back(EV("exact_nu(x,y)", 1, masa_eval_exact_nu, A2, Q y[3] = {x[0], x[1], Q(0)}; return FreeShear::field(p, y, 4);));
    // relation: steady two-argument sources equal the three-argument ones at t = 0, bit for bit
    s.relations = [](const NumCase &c, const PM &, std::vector<Outcome> &out, double) {
      auto rel = [&](const char *label, long double a, long double b) { Outcome o; o.label = label; o.lib = a; o.ref = Q(b); o.err = (memcmp(&a, &b, 10) == 0 || a == b) ? 0 : 1e300; o.status = o.err == 0 ? 0 : 1; o.note = "two-argument form vs three-argument form at t=0 (bit equality)"; out.push_back(o); };
      if (c.prec) { long double x = c.pt[0], y = c.pt[1]; Quiet q;
        rel("steady:source_rho", masa_eval_source_rho<long double>(x, y), masa_eval_source_rho<long double>(x, y, 0.0L));
        rel("steady:source_rho_u", masa_eval_source_rho_u<long double>(x, y), masa_eval_source_rho_u<long double>(x, y, 0.0L));
        rel("steady:source_rho_v", masa_eval_source_rho_v<long double>(x, y), masa_eval_source_rho_v<long double>(x, y, 0.0L));
        rel("steady:source_rho_e", masa_eval_source_rho_e<long double>(x, y), masa_eval_source_rho_e<long double>(x, y, 0.0L));
        rel("steady:source_nu", masa_eval_source_nu<long double>(x, y), masa_eval_source_nu<long double>(x, y, 0.0L));
        rel("steady:exact_nu", masa_eval_exact_nu<long double>(x, y), masa_eval_exact_nu<long double>(x, y, 0.0L)); }
      else { double x = (double)c.pt[0], y = (double)c.pt[1]; Quiet q;
        rel("steady:source_rho", masa_eval_source_rho<double>(x, y), masa_eval_source_rho<double>(x, y, 0.0));
        rel("steady:source_rho_u", masa_eval_source_rho_u<double>(x, y), masa_eval_source_rho_u<double>(x, y, 0.0));
        rel("steady:source_rho_v", masa_eval_source_rho_v<double>(x, y), masa_eval_source_rho_v<double>(x, y, 0.0));
        rel("steady:source_rho_e", masa_eval_source_rho_e<double>(x, y), masa_eval_source_rho_e<double>(x, y, 0.0));
        rel("steady:source_nu", masa_eval_source_nu<double>(x, y), masa_eval_source_nu<double>(x, y, 0.0));
        rel("steady:exact_nu", masa_eval_exact_nu<double>(x, y), masa_eval_exact_nu<double>(x, y, 0.0)); } };
    S.push_back(s);
  }
  {
    Spec s; s.name = "fans_sa_steady_wall_bounded"; s.props = {"C05", "C09"}; s.nargs = 2;
    s.gen = [](Draw &d, PV &p, bool sweep) { for (auto &kv : p) { long double f = d.U(0.6L, 1.4L); long double g = sweepf(d, sweep, 0.3);
        const std::string &n = kv.first; if (n == "mu" || n == "p_0" || n == "T_inf" || n == "R") f *= powl(g, 2.0L / 3);   // scale-type parameters: up to 10^+-2
        kv.second *= f; }
      if (p.count("Gamma")) p["Gamma"] = d.U(1.2L, 1.7L); if (p.count("M_inf")) p["M_inf"] = d.U(0.2L, 2.5L);
      // the wall-normal velocity may point either way (eta_v of either sign), and the nu_sa profile may bend either way as long as nu_sa > 0 in the sampled layer
      if (p.count("eta_v") && d.coin(0.4)) p["eta_v"] = -p["eta_v"]; if (p.count("alpha") && d.coin(0.3)) p["alpha"] = -p["alpha"] * d.U(0.1L, 1.0L); };
    // nu_sa = kappa u_tau y - alpha y^2 must stay positive (admissible state): y is drawn below the zero of the profile by construction
    s.genpt = [](Draw &d, long double *pt, const PV &pv) { pt[0] = d.U(0.3L, 3.0L); pt[1] = d.logU(1e-3L, 0.2L); long double frac = d.U(0.05L, 0.8L);
      PM p; for (auto &kv : pv) p[kv.first] = Q(kv.second); Q x[2] = {Q(pt[0]), Q(pt[1])}; long double nu = (long double)WallBounded::field(p, x, 4).v, al = (long double)par(p, "alpha").v;
      long double ku = (nu + al * pt[1] * pt[1]) / pt[1];   // kappa * u_tau at this x
      if (al > 0 && ku > 0 && pt[1] > 0.8L * ku / al) pt[1] = frac * ku / al; };
    auto skip = [](const PM &p, const Q *x) { WallBounded::Aux a; WallBounded::ref(p, x, 4, 0, &a); __float128 sw = a.Sbar.v + a.cv2.v * a.Om.v; return fabsq(sw) < 1e-6Q * (fabsq(a.Sbar.v) + fabsq(a.cv2.v * a.Om.v)); };
    s.evals.push_back(EV("exact_rho", 1, masa_eval_exact_rho, A2, return WallBounded::field(p, x, 0);));
    s.evals.push_back(EV("exact_u", 1, masa_eval_exact_u, A2, return WallBounded::field(p, x, 1);));
    s.evals.push_back(EV("exact_v", 1, masa_eval_exact_v, A2, return WallBounded::field(p, x, 2);));
    s.evals.push_back(EV("exact_t", 1, masa_eval_exact_t, A2, return WallBounded::field(p, x, 3);));
    s.evals.push_back(EV("exact_nu", 1, masa_eval_exact_nu, A2, return WallBounded::field(p, x, 4);));
    s.evals.push_back(EV("exact_p", 1, masa_eval_exact_p, A2, return par(p, "p_0");));
    s.evals.push_back(EV("source_rho", 0, masa_eval_source_rho, A2, return WallBounded::ref(p, x, 0, 0);));
    s.evals.push_back(EV("source_rho_u", 0, masa_eval_source_rho_u, A2, return WallBounded::ref(p, x, 1, 0);));
    s.evals.push_back(EV("source_rho_v", 0, masa_eval_source_rho_v, A2, return WallBounded::ref(p, x, 2, 0);));
    s.evals.push_back(EV("source_rho_e", 0, masa_eval_source_rho_e, A2, return WallBounded::ref(p, x, 3, 0);));
    { Ev e = EV("source_nu", 0, masa_eval_source_nu, A2, return WallBounded::ref(p, x, 4, 0);); e.skip = skip; s.evals.push_back(e); }
    S.push_back(s);
  }
  // ================================================================ C06 reacting Euler
  {
    Spec s; s.name = "euler_chem_1d"; s.props = {"C06", "C09"}; s.nargs = 1;
    s.gen = [](Draw &d, PV &p, bool sweep) { for (auto &kv : p) kv.second = band(d) * sweepf(d, sweep && !starts(kv.first, "rho_") && !starts(kv.first, "T_") && kv.first != "L" && !starts(kv.first, "Ea") && !starts(kv.first, "eta") && !starts(kv.first, "theta") && kv.first != "R" && kv.first != "M_N" && !starts(kv.first, "R_N"), 0.25);
      p["T_0"] = d.logU(300.0L, 8000.0L); p["T_x"] = p["T_0"] * d.U(0.01L, 0.3L) * (d.coin(0.3) ? -1 : 1);
      p["rho_N_0"] = d.U(0.5L, 3.0L); p["rho_N2_0"] = d.U(0.5L, 3.0L); p["rho_N_x"] = d.U(0.05L, 0.4L) * (d.coin(0.3) ? -1 : 1); p["rho_N2_x"] = d.U(0.05L, 0.4L) * (d.coin(0.3) ? -1 : 1);
      p["theta_v_N2"] = d.logU(300.0L, 4000.0L); p["R"] = d.logU(1.0L, 10.0L); p["Ea_N"] = d.logU(100.0L, 9000.0L); p["Ea_N2"] = d.logU(100.0L, 9000.0L);
      p["etaf1_N"] = d.U(-1.5L, 1.5L); p["etaf1_N2"] = d.U(-1.5L, 1.5L); p["M_N"] = d.logU(1.0L, 30.0L); p["R_N"] = d.logU(0.1L, 500.0L); p["R_N2"] = d.logU(0.1L, 500.0L);
      p["Cf1_N"] = d.logU(0.1L, 10.0L); p["Cf1_N2"] = d.logU(0.1L, 10.0L);
      long double l = d.logU(0.3L, 30.0L); p["L"] = d.coin(0.3) ? -l : l;
      // both species sharing one Arrhenius law (the textbook Park set-up): exponents and activation energies exactly equal in one case of seven
      if (d.coin(0.15)) { p["etaf1_N2"] = p["etaf1_N"]; p["Ea_N2"] = p["Ea_N"]; } };
    s.genpt = [](Draw &d, long double *pt, const PV &p) { auto it = p.find("L"); box(d, pt, 1, false, it == p.end() ? 1.0L : it->second); };
    { Ev e; e.kind = 0; e.label = "source_rho_N"; e.ld = [](const long double *a) { return masa_eval_source_rho_N<long double>(a[0], &keq_ld); }; e.d = [](const double *a) { return masa_eval_source_rho_N<double>(a[0], &keq_d); }; e.ref = [](const PM &p, const Q *x) { return Chem::ref(p, x, 0, keq_q); }; s.evals.push_back(e); }
    { Ev e; e.kind = 0; e.label = "source_rho_N2"; e.ld = [](const long double *a) { return masa_eval_source_rho_N2<long double>(a[0], &keq_ld); }; e.d = [](const double *a) { return masa_eval_source_rho_N2<double>(a[0], &keq_d); }; e.ref = [](const PM &p, const Q *x) { return Chem::ref(p, x, 1, keq_q); }; s.evals.push_back(e); }
    s.evals.push_back(EV("source_rho_u", 0, masa_eval_source_rho_u, A1, return Chem::ref(p, x, 2, keq_q);));
    s.evals.push_back(EV("source_rho_e", 0, masa_eval_source_rho_e, A1, return Chem::ref(p, x, 3, keq_q);));
    s.evals.push_back(EV("exact_rho_N", 1, masa_eval_exact_rho_N, A1, return Chem::field(p, x, 0);));
    s.evals.push_back(EV("exact_rho_N2", 1, masa_eval_exact_rho_N2, A1, return Chem::field(p, x, 1);));
    s.evals.push_back(EV("exact_u", 1, masa_eval_exact_u, A1, return Chem::field(p, x, 2);));
    s.evals.push_back(EV("exact_t", 1, masa_eval_exact_t, A1, return Chem::field(p, x, 3);));
    s.evals.push_back(EV("exact_rho", 1, masa_eval_exact_rho, A1, return Chem::field(p, x, 0) + Chem::field(p, x, 1);));
    // closure: Q_N + Q_N2 = d(rho u)/dx for every callback. The production rates cancel in the sum, so the scale of the
    // comparison is the magnitude of the two species sources themselves.
    s.relations = [](const NumCase &c, const PM &p, std::vector<Outcome> &out, double K) {
      Q x[1] = {Q(c.pt[0])}; Q div = Chem::ref(p, x, 4, keq_q); Q qn = Chem::ref(p, x, 0, keq_q), qn2 = Chem::ref(p, x, 1, keq_q);
      long double a, b; { Quiet q; if (c.prec) { a = masa_eval_source_rho_N<long double>(c.pt[0], &keq_ld); b = masa_eval_source_rho_N2<long double>(c.pt[0], &keq_ld); } else { a = masa_eval_source_rho_N<double>((double)c.pt[0], &keq_d); b = masa_eval_source_rho_N2<double>((double)c.pt[0], &keq_d); } }
      // the caller may hand in a DIFFERENT function at every call: evaluate again, at the same point, with another member of the family
      { int k2 = (c.cb_kind + 1) % 3; long double c2[3] = {c.cb[0] * 1.75L + 0.3L, k2 == 1 ? 0.4L : c.cb[1] + 0.6L, k2 == 1 ? 900.0L : c.cb[2] + 0.8L}; if (!c.prec) for (int i = 0; i < 3; i++) c2[i] = (double)c2[i];
        set_callback(k2, c2); Q r0 = Chem::ref(p, x, 0, keq_q), r1 = Chem::ref(p, x, 1, keq_q); long double a2, b2; { Quiet q; if (c.prec) { a2 = masa_eval_source_rho_N<long double>(c.pt[0], &keq_ld); b2 = masa_eval_source_rho_N2<long double>(c.pt[0], &keq_ld); } else { a2 = masa_eval_source_rho_N<double>((double)c.pt[0], &keq_d); b2 = masa_eval_source_rho_N2<double>((double)c.pt[0], &keq_d); } }
        // ... and the two species sources of one station need not be evaluated with the same function: N with the case's callback, then N2 with the other one
        long double b3; { set_callback(c.cb_kind, c.cb); Quiet q; if (c.prec) { (void)masa_eval_source_rho_N<long double>(c.pt[0], &keq_ld); set_callback(k2, c2); b3 = masa_eval_source_rho_N2<long double>(c.pt[0], &keq_ld); } else { (void)masa_eval_source_rho_N<double>((double)c.pt[0], &keq_d); set_callback(k2, c2); b3 = masa_eval_source_rho_N2<double>((double)c.pt[0], &keq_d); } }
        set_callback(c.cb_kind, c.cb); long double eps2 = c.prec ? LDBL_EPSILON : DBL_EPSILON;
        { Outcome o3; o3.label = "mixed-callbacks:source_rho_N2"; o3.lib = b3; o3.ref = r1; o3.err = (double)(fabsq((__float128)b3 - r1.v) / r1.m) / eps2; o3.status = (o3.err <= K && std::isfinite(b3)) ? 0 : 1; o3.note = "N evaluated with one K_eq function, then N2 at the same point with another"; out.push_back(o3); }
        Outcome o1; o1.label = "second-callback:source_rho_N"; o1.lib = a2; o1.ref = r0; o1.err = (double)(fabsq((__float128)a2 - r0.v) / r0.m) / eps2; o1.status = (o1.err <= K && std::isfinite(a2)) ? 0 : 1; o1.note = "same point, a different K_eq function handed in at the next call"; out.push_back(o1);
        Outcome o2; o2.label = "second-callback:source_rho_N2"; o2.lib = b2; o2.ref = r1; o2.err = (double)(fabsq((__float128)b2 - r1.v) / r1.m) / eps2; o2.status = (o2.err <= K && std::isfinite(b2)) ? 0 : 1; o2.note = o1.note; out.push_back(o2); }
      Outcome o; o.label = "closure:Q_N+Q_N2"; o.lib = a + b; o.ref = Q(div.v, qn.m + qn2.m + div.m); long double eps = c.prec ? LDBL_EPSILON : DBL_EPSILON;
      o.err = (double)(fabsq((__float128)a + (__float128)b - div.v) / o.ref.m) / eps; o.status = (o.err <= K && std::isfinite(o.err)) ? 0 : 1; o.note = "sum of species sources vs d(rho u)/dx"; out.push_back(o); };
    S.push_back(s);
  }
  // ================================================================ C08 Sod shock tube, conjugate normal
  {
    Spec s; s.name = "sod_1d"; s.props = {"C08", "C09"}; s.nargs = 2;
    s.gen = [](Draw &d, PV &p, bool) { long double g = d.coin(0.3) ? d.logU(1.05L, 3.0L) : d.U(1.05L, 3.0L); p["Gamma"] = g; p["mu"] = (g - 1) / (g + 1); };   // mu is documented as (Gamma-1)/(Gamma+1)
    // points are drawn per region of the exact wave structure, a relative distance >= 1e-6 away from the five wave speeds
    s.genpt = [](Draw &d, long double *pt, const PV &p) { SodExact e; e.solve((__float128)(long double)p.at("Gamma"));
      long double cl = (long double)e.cl, vt = (long double)e.vt, um = (long double)e.um, vs = (long double)e.vs; long double xi; int reg = d.range(0, 4); long double u = d.U(0.02L, 0.98L);
      if (reg == 0) xi = -cl - d.logU(1e-5L, 3.0L); else if (reg == 1) xi = -cl + u * (vt + cl); else if (reg == 2) xi = vt + u * (um - vt); else if (reg == 3) xi = um + u * (vs - um); else xi = vs + d.logU(1e-5L, 3.0L);
      long double t = d.logU(0.05L, 5.0L); pt[0] = xi * t; pt[1] = t; };
    auto sodref = [](const PM &p, const Q *x, int what) -> Q { SodExact e; e.solve(par(p, "Gamma").v); __float128 rho, u, pr; e.at(x[0].v, x[1].v, rho, u, pr); __float128 v = what ? rho * u : rho;
      // scale: the bisection resolves p* to a few eps; (1 - p*^((G-1)/2G)) * 2 c/(G-1) amplifies by 2/(G-1)
      __float128 amp = 1 + 2 / (e.g - 1); return Q(v, (fabsq(v) > 1 ? fabsq(v) : 1) * amp); };
    auto nearfront = [](const PM &p, const Q *x) { SodExact e; e.solve(par(p, "Gamma").v); __float128 xi = x[0].v / x[1].v; for (__float128 w : {-e.cl, e.vt, e.um, e.vs}) if (fabsq(xi - w) < 1e-6Q * (1 + fabsq(w))) return true; return false; };
    { Ev e = EV("source_rho", 0, masa_eval_source_rho, A2, return sodref(p, x, 0);); e.skip = nearfront; s.evals.push_back(e); }
    { Ev e = EV("source_rho_u", 0, masa_eval_source_rho_u, A2, return sodref(p, x, 1);); e.skip = nearfront; s.evals.push_back(e); }
    // the reference is itself checked against the relations the property names
    s.relations = [](const NumCase &c, const PM &p, std::vector<Outcome> &out, double) { SodExact e; e.solve(par(p, "Gamma").v); typedef __float128 F; F g = e.g;
      F ps = e.pm, us = e.um;
      F rh_mass = e.rmr * (us - e.vs) - e.rr * (0 - e.vs);
      F rh_mom = e.rmr * (us - e.vs) * us + ps - e.pr;
      F rh_en = (g / (g - 1) * ps / e.rmr + (us - e.vs) * (us - e.vs) / 2) - (g / (g - 1) * e.pr / e.rr + e.vs * e.vs / 2);   // total enthalpy in the shock frame
      F isen = ps / powq(e.rml, g) - e.pl / powq(e.rl, g);
      F riem = us + 2 * sqrtq(g * ps / e.rml) / (g - 1) - 2 * e.cl / (g - 1);
      F tail = e.vt - (us - sqrtq(g * ps / e.rml));
      F worst = 0; for (F r : {rh_mass, rh_mom, rh_en, isen, riem, tail}) if (fabsq(r) > worst) worst = fabsq(r);
      Outcome o; o.label = "reference:Rankine-Hugoniot,isentropic,Riemann-invariant,contact"; o.lib = (long double)worst; o.ref = Q(0); o.err = (double)(worst / 1e-28Q); o.status = worst < 1e-28Q * (1 + 2 / (g - 1)) * 100 ? 0 : 1; o.note = "validity predicates of the binary128 reference solution"; out.push_back(o); };
    S.push_back(s);
  }
  {
    Spec s; s.name = "cp_normal"; s.props = {"C08", "C09"}; s.nargs = 1;
    s.gen = [](Draw &d, PV &p, bool sweep) { long double m = d.U(0.1L, 20.0L) * sweepf(d, sweep, 0.3); p["m"] = d.coin(0.4) ? -m : m; p["sigma"] = d.logU(0.05L, 50.0L); p["sigma_d"] = d.logU(0.05L, 50.0L); };
    s.genvec = [](Draw &d, std::vector<long double> &v) { int n = d.range(1, 40); long double centre = d.U(-20.0L, 20.0L), spread = d.logU(0.01L, 30.0L); v.clear(); for (int i = 0; i < n; i++) v.push_back(centre + spread * d.U(-1.0L, 1.0L)); };
    // x within a few posterior / prior standard deviations so that the densities are not underflowing
    s.genpt = [](Draw &d, long double *pt, const PV &p) { long double c = d.coin(0.5) ? p.at("m") : 0.0L; pt[0] = c + p.at("sigma") * d.U(-4.0L, 4.0L); };
    struct CP { static Q mean() { Q s(0); for (auto &v : current_vec()) s = s + v; return s / Q((long double)current_vec().size()); }
      static Q n() { return Q((long double)current_vec().size()); }
      static Q var_p(const PM &p) { return Q(1) / (Q(1) / (par(p, "sigma") * par(p, "sigma")) + n() / (par(p, "sigma_d") * par(p, "sigma_d"))); }
      static Q mean_p(const PM &p) { return var_p(p) * (par(p, "m") / (par(p, "sigma") * par(p, "sigma")) + n() * mean() / (par(p, "sigma_d") * par(p, "sigma_d"))); }
      static Q normal(Q x, Q mu, Q var) { Q d = x - mu; return exp(-(d * d) / (Q(2) * var)) / sqrt(Q(2) * qpi() * var); } };
    // history: the data vector is set first; the posterior moments are asked for BEFORE any density has been evaluated
    { Ev e; e.kind = 0; e.label = "posterior_mean"; e.ld = [](const long double *) { return masa_eval_posterior_mean<long double>(); }; e.d = [](const double *) { return masa_eval_posterior_mean<double>(); }; e.ref = [](const PM &p, const Q *) { return CP::mean_p(p); }; s.evals.push_back(e); }
    { Ev e; e.kind = 0; e.label = "posterior_variance"; e.ld = [](const long double *) { return masa_eval_posterior_variance<long double>(); }; e.d = [](const double *) { return masa_eval_posterior_variance<double>(); }; e.ref = [](const PM &p, const Q *) { return CP::var_p(p); }; s.evals.push_back(e); }
    s.evals.push_back(EV("prior", 0, masa_eval_prior, A1, return CP::normal(x[0], par(p, "m"), par(p, "sigma") * par(p, "sigma"));));
    s.evals.push_back(EV("likelyhood", 0, masa_eval_likelyhood, A1, Q d = x[0] - CP::mean(); return exp(-(CP::n() * d * d) / (Q(2) * par(p, "sigma_d") * par(p, "sigma_d")));));
    s.evals.push_back(EV("loglikelyhood", 0, masa_eval_loglikelyhood, A1, Q d = x[0] - CP::mean(); return -(CP::n() * d * d) / (Q(2) * par(p, "sigma_d") * par(p, "sigma_d"));));
    s.evals.push_back(EV("posterior", 0, masa_eval_posterior, A1, return CP::normal(x[0], CP::mean_p(p), CP::var_p(p));));
    { Ev e; e.kind = 0; e.label = "posterior_mean(after densities)"; e.ld = [](const long double *) { return masa_eval_posterior_mean<long double>(); }; e.d = [](const double *) { return masa_eval_posterior_mean<double>(); }; e.ref = [](const PM &p, const Q *) { return CP::mean_p(p); }; s.evals.push_back(e); }
    for (int k = 0; k <= 20; k++) { Ev e; e.kind = 0; e.label = "central_moment[" + std::to_string(k) + "]";
      e.ld = [k](const long double *) { return masa_eval_central_moment<long double>(k); }; e.d = [k](const double *) { return masa_eval_central_moment<double>(k); };
      e.ref = [k](const PM &p, const Q *) { if (k % 2) return Q(0); Q r(1); for (int j = k - 1; j >= 1; j -= 2) r = r * Q((long double)j); Q sg = par(p, "sigma"); for (int j = 0; j < k; j++) r = r * sg; return r; }; s.evals.push_back(e); }
    // relations that do not presuppose the closed forms: unit mass of prior and posterior (trapezoidal rule, spectrally accurate
    // for Gaussians), posterior / (likelihood * prior) independent of x, loglikelihood = log(likelihood)
    s.relations = [](const NumCase &c, const PM &p, std::vector<Outcome> &out, double K) {
      auto ev = [&](int which, long double x) -> long double { Quiet q; if (c.prec) { switch (which) { case 0: return masa_eval_prior<long double>(x); case 1: return masa_eval_posterior<long double>(x); case 2: return masa_eval_likelyhood<long double>(x); default: return masa_eval_loglikelyhood<long double>(x); } }
        switch (which) { case 0: return masa_eval_prior<double>((double)x); case 1: return masa_eval_posterior<double>((double)x); case 2: return masa_eval_likelyhood<double>((double)x); default: return masa_eval_loglikelyhood<double>((double)x); } };
      long double eps = c.prec ? LDBL_EPSILON : DBL_EPSILON; Hasher h; for (auto &kv : c.params) h.ld(kv.second);
      if ((h.h >> 8) % 4 == 0) {   // one case in four: quadrature costs 600 evaluations per density
        long double cen[2] = {(long double)par(p, "m").v, (long double)CP::mean_p(p).v}, sd[2] = {(long double)par(p, "sigma").v, sqrtl((long double)CP::var_p(p).v)};
        for (int w = 0; w < 2; w++) { const int N = 300; long double hh = 12.0L * sd[w] / N, sum = 0; for (int i = -N; i <= N; i++) sum += ev(w, cen[w] + i * hh) * hh;
          Outcome o; o.label = w ? "integral(posterior)" : "integral(prior)"; o.lib = sum; o.ref = Q(1.0L); o.err = (double)(fabsl(sum - 1.0L) / eps / 4000); o.status = fabsl(sum - 1.0L) < 4000 * K * eps ? 0 : 1; o.note = "trapezoidal rule over +-12 standard deviations, 601 nodes"; out.push_back(o); } }
      // proportionality: ratio post/(lik*prior) at two points near the posterior mean agree (the closed forms supply the SCALE only)
      { long double mp = (long double)CP::mean_p(p).v, sp = sqrtl((long double)CP::var_p(p).v); long double xs[2] = {mp - 0.7L * sp, mp + 0.4L * sp}; long double r[2]; bool ok = true; __float128 scale = 0;
        for (int i = 0; i < 2; i++) { long double xx = c.prec ? xs[i] : (long double)(double)xs[i]; long double den = ev(2, xx) * ev(0, xx); if (!(den > 1e-200L)) ok = false; r[i] = ev(1, xx) / den;
          Q X(xx); Q d = X - CP::mean(); Q lik = exp(-(CP::n() * d * d) / (Q(2) * par(p, "sigma_d") * par(p, "sigma_d"))); Q R = CP::normal(X, CP::mean_p(p), CP::var_p(p)) / (lik * CP::normal(X, par(p, "m"), par(p, "sigma") * par(p, "sigma"))); scale += R.m / fabsq(R.v); }
        if (ok) { Outcome o; o.label = "posterior/(likelyhood*prior) constant"; o.lib = r[0]; o.ref = Q(r[1]); long double rel = fabsl(r[0] - r[1]) / fabsl(r[1]); o.err = (double)((__float128)rel / eps / scale); o.status = o.err <= K ? 0 : 1; o.note = "ratio at two abscissae"; out.push_back(o); } }
      { long double x = c.pt[0]; long double l = ev(2, x), ll = ev(3, x); if (l > 1e-200L) { Q d = Q(x) - CP::mean(); Q a = -(CP::n() * d * d) / (Q(2) * par(p, "sigma_d") * par(p, "sigma_d"));
          Outcome o; o.label = "loglikelyhood=log(likelyhood)"; o.lib = ll; o.ref = Q(logl(l)); o.err = (double)((__float128)fabsl(ll - logl(l)) / eps / (2 * a.m + 2)); o.status = o.err <= K ? 0 : 1; out.push_back(o); } } };
    S.push_back(s);
  }
  return S;
}

const std::vector<Spec> &all_specs() { static std::vector<Spec> s = build(); return s; }
const Spec *find_spec(const std::string &name) { for (auto &s : all_specs()) if (s.name == name) return &s; return nullptr; }

std::vector<std::string> param_names(int prec) {
  Quiet q; if (prec) masa_display_param<long double>(); else masa_display_param<double>();
  std::vector<std::string> out; std::string line; std::stringstream ss(q.str());
  while (std::getline(ss, line)) { auto p = line.find(" is set to:"); if (p == std::string::npos) p = line.find(" is"); if (p != std::string::npos && line.find("MASA") == std::string::npos) out.push_back(line.substr(0, p)); }
  return out;
}
