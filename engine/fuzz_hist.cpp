// C19: coverage-guided fuzzing of API histories under AddressSanitizer + UndefinedBehaviorSanitizer + LeakSanitizer.
// Bytes are decoded into operation records (structure-aware), executed by the same model-based interpreter as the
// rapidcheck drivers, starting from an empty registry (reset hook) in every iteration.
#include "hist.hpp"
#include <sanitizer/lsan_interface.h>

static std::vector<std::string> g_cat; static std::vector<int> g_codes; static int g_nord = 1;
static void init_once() { if (!g_cat.empty()) return; if (!freopen("/dev/null", "w", stdout)) {}
  { Quiet q; MASA::masa_printid<double>(); std::stringstream ss(q.str()); std::string l; int bars = 0; while (std::getline(ss, l)) { if (l.find("*-----") != std::string::npos) { bars++; continue; } if (bars == 1 && !l.empty() && l != "masa_test_function" && l != "masa_uninit") g_cat.push_back(l); } }
  // vector-bearing solutions are over-represented: array and vector paths need them
  for (int i = 0; i < 6; i++) { g_cat.push_back("cp_normal"); g_cat.push_back("radiation_integrated_intensity"); }
  // the two self-test fixtures sit behind the ordinary entries and are addressed by flag bits (see decode_rec), so that the committed corpus keeps its meaning
  g_nord = (int)g_cat.size(); g_cat.push_back("masa_test_function"); g_cat.push_back("masa_uninit");
  for (int c = 0; c < OP_FATAL; c++) g_codes.push_back(c); for (int i = 0; i < 3; i++) { g_codes.push_back(OP_INIT); g_codes.push_back(OP_CINIT); g_codes.push_back(OP_SETVEC); g_codes.push_back(OP_CSETARR); g_codes.push_back(OP_CGETARR); g_codes.push_back(OP_EVAL); g_codes.push_back(OP_CGETNAME); }
  g_codes.push_back(OP_FATAL);
  if (const char *p = getenv("VERIF_STATS")) stats().path = p; atexit([] { stats().flush(); }); }

// record layout (20 bytes, decoded from the front so that appended bytes append operations):
//   code-index u8 | flags u8 (bit0 precision; bits1-3 all set: bit4 selects one of the two self-test fixtures instead of the solution field) | handle u8 | idx u8 | solution u16 | parameter u16 | api u16 | n u16 | value entropy u64
static const size_t REC = 20;
static Op decode_rec(const uint8_t *r) { Op o; o.code = g_codes[r[0] % g_codes.size()]; o.prec = r[1] & 1; o.h = r[2]; o.idx = r[3]; auto u16 = [&](int k) { return (int)(r[k] | (r[k + 1] << 8)); }; o.s = u16(4) % g_nord; if ((r[1] & 0x0E) == 0x0E) o.s = g_nord + ((r[1] >> 4) & 1); o.p = u16(6); o.api = u16(8); o.n = u16(10);
  uint64_t v = 0; for (int i = 0; i < 8; i++) v |= (uint64_t)r[12 + i] << (8 * i); o.v[0] = v; uint64_t m = mix64(v); for (int i = 1; i < 4; i++) { o.v[i] = m; m = mix64(m); } return o; }
extern "C" int LLVMFuzzerInitialize(int *, char ***) { init_once();
  if (const char *dir = getenv("VERIF_SEED_CORPUS")) {   // a few small valid histories as the starting corpus (the empty corpus is tried by other workers)
    uint64_t x = strtoull(getenv("VERIF_SEED") ? getenv("VERIF_SEED") : "1", 0, 10); for (int f = 0; f < 48; f++) { int nops = 4 + (int)(mix64(x + f) % 36); std::string bytes; for (int i = 0; i < nops; i++) for (size_t b = 0; b < REC; b += 8) { uint64_t w = mix64(x * 1315423911ULL + f * 1000003ULL + i * 101 + b); for (size_t k = 0; k < 8 && b + k < REC; k++) bytes += char((w >> (8 * k)) & 0xff); }
      std::ofstream(std::string(dir) + "/seed_" + std::to_string(f), std::ios::binary) << bytes; } }
  return 0; }
extern "C" int LLVMFuzzerTestOneInput(const uint8_t *data, size_t size) {
  init_once(); std::vector<Op> ops; for (size_t pos = 0; pos + REC <= size && ops.size() < 64; pos += REC) ops.push_back(decode_rec(data + pos));
  History H; H.cfg.catalogue = g_cat; H.cfg.check_fresh = (size % 4 == 0); H.cfg.audit_every_step = false; H.cfg.fatal_mode = 0; H.run(ops);
  { Quiet q; MASA::masa_verif_reset(); }      // whatever the library still holds after this is unreachable: LeakSanitizer reports it
  Stats &st = stats(); st.count("cases"); st.count("evaluations", H.step); for (auto &kv : H.cls) st.count("class:" + kv.first, kv.second);
  bool nt = H.cls["reinit_existing_handle"] > 0 && (H.cls["vector_length_change"] + H.cls["c_set_array"]) > 0; if (nt) { st.count("class:H:nontrivial"); Hasher h; for (auto &o : ops) h.str(op_to_text(o)); st.distinct.insert(h.h); }
  if (H.cls["c_array_length_0"]) st.count("class:H:c_array_call_with_n=0");
  for (auto &f : H.fails) st.count("semantic_failures_seen:" + f.prop);
  if (nt && st.samples.size() < st.max_samples && st.counters["cases"] % 997 == 1) { std::string j = "{\"history\":["; for (size_t i = 0; i < H.trace.size() && i < 30; i++) j += std::string(i ? "," : "") + "\"" + jesc(H.trace[i]) + "\""; st.sample(j + "]}"); }
  if (st.counters["cases"] % 200 == 0) st.flush();
  return 0;
}
