// prototype: quad-precision scalar + forward-mode dual numbers (nestable)
#pragma once
#include <quadmath.h>
#include <cmath>
#include <array>
#include <string>

struct Q {
  __float128 v, m;   // value and running magnitude (sum of |terms|)
  Q() : v(0), m(0) {}
  Q(double d) : v(d), m(fabsq((__float128)d)) {}
  Q(long double d) : v(d), m(fabsq((__float128)d)) {}
  Q(int d) : v(d), m(fabsq((__float128)d)) {}
  Q(__float128 d) : v(d), m(fabsq(d)) {}
  Q(__float128 d, __float128 mm) : v(d), m(mm) {}
  explicit operator long double() const { return (long double)v; }
  explicit operator double() const { return (double)v; }
};
inline __float128 qabs(__float128 a){return fabsq(a);}
inline Q operator+(Q a, Q b) { return Q(a.v + b.v, a.m + b.m); }
inline Q operator-(Q a, Q b) { return Q(a.v - b.v, a.m + b.m); }
// Two magnitude rules for products. First-order (default): m(ab) = |a| m_b + |b| m_a - |ab| is the forward error of
// evaluating the product of two already-evaluated quantities -- right for the manufactured FIELDS, which the library
// evaluates in the same unexpanded way. Compounding: m(ab) = m_a m_b is the sum of |terms| of the fully expanded
// product -- right for the OPERATOR, whose products of fields the library's Maple-generated sources expand (a
// first-order rule under-estimates e.g. rho u u when u = u_r (cos x - 1)(...) suffers cancellation).
inline int &q_mode() { static int m = 0; return m; }
struct Compound { int old; Compound() : old(q_mode()) { q_mode() = 1; } ~Compound() { q_mode() = old; } };
struct FirstOrder { int old; FirstOrder() : old(q_mode()) { q_mode() = 0; } ~FirstOrder() { q_mode() = old; } };
inline Q operator*(Q a, Q b) { return Q(a.v * b.v, q_mode() ? a.m * b.m : qabs(a.v) * b.m + qabs(b.v) * a.m - qabs(a.v * b.v)); }
inline Q operator/(Q a, Q b) { return Q(a.v / b.v, q_mode() ? a.m * b.m / (b.v * b.v) : a.m / qabs(b.v) + qabs(a.v) * (b.m - qabs(b.v)) / (b.v * b.v)); }
inline Q operator-(Q a) { return Q(-a.v, a.m); }
inline bool operator<(Q a, Q b) { return a.v < b.v; }
inline bool operator>(Q a, Q b) { return a.v > b.v; }
inline bool operator<=(Q a, Q b) { return a.v <= b.v; }
inline bool operator>=(Q a, Q b) { return a.v >= b.v; }
// excess magnitude of argument (beyond its own value) propagates through f'
inline Q sin(Q a) { __float128 s=sinq(a.v), c=cosq(a.v); return Q(s, qabs(s) + qabs(c)*a.m); }
inline Q cos(Q a) { __float128 s=sinq(a.v), c=cosq(a.v); return Q(c, qabs(c) + qabs(s)*a.m); }
inline Q exp(Q a) { __float128 e=expq(a.v); return Q(e, e*(1+a.m)); }
inline Q log(Q a) { __float128 l=logq(a.v); return Q(l, qabs(l) + a.m/qabs(a.v)); }
inline Q sqrt(Q a) { __float128 s=sqrtq(a.v); return Q(s, s*(1 + (a.m-qabs(a.v))/(2*qabs(a.v)))); }
inline Q asin(Q a) { __float128 s=asinq(a.v); return Q(s, qabs(s) + a.m/sqrtq(1-a.v*a.v)); }
inline Q fabs(Q a) { return Q(fabsq(a.v), a.m); }
inline Q pow(Q a, Q b) { __float128 p=powq(a.v,b.v); bool isint=(b.v==floorq(b.v)) && b.m==qabs(b.v); return Q(p, qabs(p)*(1 + qabs(b.v)*(a.m-qabs(a.v))/qabs(a.v) + (isint?0:qabs(logq(qabs(a.v)))*(b.m)) )); }
inline Q qpi() { return Q(M_PIq); }
inline std::string str(Q a) { char b[64]; quadmath_snprintf(b, 64, "%.30Qe", a.v); return b; }

template <class T, int N> struct Dual {
  T v; std::array<T, N> d;
  Dual() : v(T(0)) { for (auto &x : d) x = T(0); }
  Dual(const T &c) : v(c) { for (auto &x : d) x = T(0); }
  Dual(double c) : v(T(c)) { for (auto &x : d) x = T(0); }
  Dual(int c) : v(T(c)) { for (auto &x : d) x = T(0); }
};
template <class T, int N> Dual<T,N> operator+(const Dual<T,N>&a,const Dual<T,N>&b){Dual<T,N> r; r.v=a.v+b.v; for(int i=0;i<N;i++) r.d[i]=a.d[i]+b.d[i]; return r;}
template <class T, int N> Dual<T,N> operator-(const Dual<T,N>&a,const Dual<T,N>&b){Dual<T,N> r; r.v=a.v-b.v; for(int i=0;i<N;i++) r.d[i]=a.d[i]-b.d[i]; return r;}
template <class T, int N> Dual<T,N> operator-(const Dual<T,N>&a){Dual<T,N> r; r.v=-a.v; for(int i=0;i<N;i++) r.d[i]=-a.d[i]; return r;}
template <class T, int N> Dual<T,N> operator*(const Dual<T,N>&a,const Dual<T,N>&b){Dual<T,N> r; r.v=a.v*b.v; for(int i=0;i<N;i++) r.d[i]=a.d[i]*b.v+a.v*b.d[i]; return r;}
template <class T, int N> Dual<T,N> operator/(const Dual<T,N>&a,const Dual<T,N>&b){Dual<T,N> r; r.v=a.v/b.v; for(int i=0;i<N;i++) r.d[i]=(a.d[i]-r.v*b.d[i])/b.v; return r;}
#define MIXED(op) \
template <class T,int N,class S> auto operator op(const Dual<T,N>&a,const S&b)->decltype(Dual<T,N>(b),Dual<T,N>()){return a op Dual<T,N>(b);} \
template <class T,int N,class S> auto operator op(const S&a,const Dual<T,N>&b)->decltype(Dual<T,N>(a),Dual<T,N>()){return Dual<T,N>(a) op b;}
MIXED(+) MIXED(-) MIXED(*) MIXED(/)
template <class T,int N> Dual<T,N> chain(const Dual<T,N>&a,const T&f,const T&fp){Dual<T,N> r; r.v=f; for(int i=0;i<N;i++) r.d[i]=fp*a.d[i]; return r;}
template <class T,int N> Dual<T,N> sin(const Dual<T,N>&a){return chain(a,sin(a.v),cos(a.v));}
template <class T,int N> Dual<T,N> cos(const Dual<T,N>&a){return chain(a,cos(a.v),-sin(a.v));}
template <class T,int N> Dual<T,N> exp(const Dual<T,N>&a){T e=exp(a.v);return chain(a,e,e);}
template <class T,int N> Dual<T,N> log(const Dual<T,N>&a){return chain(a,log(a.v),T(1)/a.v);}
template <class T,int N> Dual<T,N> sqrt(const Dual<T,N>&a){T s=sqrt(a.v);return chain(a,s,T(1)/(T(2)*s));}
template <class T,int N> Dual<T,N> asin(const Dual<T,N>&a){return chain(a,asin(a.v),T(1)/sqrt(T(1)-a.v*a.v));}
// pow with constant (non-dual) exponent, recursive over nesting
inline Q powc(const Q&a,const Q&p){return pow(a,p);}
template <class T,int N> Dual<T,N> powc(const Dual<T,N>&a,const Q&p){ return chain(a,powc(a.v,p),T(p)*powc(a.v,p-Q(1))); }
template <class T,int N> bool operator<(const Dual<T,N>&a,const Dual<T,N>&b){return a.v<b.v;}
template <class T,int N> bool operator>(const Dual<T,N>&a,const Dual<T,N>&b){return a.v>b.v;}
template <class T,int N> bool operator<=(const Dual<T,N>&a,const Dual<T,N>&b){return a.v<=b.v;}
template <class T,int N> bool operator>=(const Dual<T,N>&a,const Dual<T,N>&b){return a.v>=b.v;}

// value extraction
inline Q val(const Q&a){return a;}
template <class T,int N> Q val(const Dual<T,N>&a){return val(a.v);}

// gradient helper: evaluate f at point p (array of S) with inner duals, returning Dual<S,N>
template <int N, class S, class F> Dual<S,N> with_grad(const std::array<S,N>&p, F f){
  std::array<Dual<S,N>,N> x;
  for(int i=0;i<N;i++){ x[i]=Dual<S,N>(p[i]); x[i].d[i]=S(1);}
  return f(x);
}
