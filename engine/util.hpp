// shared helpers for all harnesses: stdout capture, entropy draws, exact float I/O,
// JSON-lines statistics, case hashing.
#pragma once
#include <cstdint>
#include <cstdio>
#include <cstdlib>
#include <cstring>
#include <cmath>
#include <cfloat>
#include <iostream>
#include <sstream>
#include <fstream>
#include <map>
#include <set>
#include <string>
#include <vector>
#include <unistd.h>

// ---- capture std::cout (the library prints through iostream; sod.cpp uses printf -> handled by callers)
struct Quiet {
  // std::ios::rdbuf(sb) resets the stream's error state; a real program never does that between two library calls, so the state is
  // carried across: if the library leaves std::cout failed, everything it prints afterwards is lost here exactly as it would be there
  std::stringstream ss; std::streambuf *old;
  Quiet() { std::ios_base::iostate st = std::cout.rdstate(); old = std::cout.rdbuf(ss.rdbuf()); std::cout.clear(st); }
  ~Quiet() { std::ios_base::iostate st = std::cout.rdstate(); std::cout.rdbuf(old); std::cout.clear(st); }
  std::string str() const { return ss.str(); }
};

// ---- exact text form of floating point values
inline std::string hexld(long double v) { char b[64]; snprintf(b, sizeof b, "%La", v); return b; }
inline std::string hexd(double v) { char b[64]; snprintf(b, sizeof b, "%a", v); return b; }
inline long double parseld(const std::string &s) { return strtold(s.c_str(), nullptr); }
inline std::string decld(long double v) { char b[64]; snprintf(b, sizeof b, "%.21Lg", v); return b; }

// ---- FNV-1a hash for counting distinct cases
struct Hasher {
  uint64_t h = 1469598103934665603ULL;
  void bytes(const void *p, size_t n) { const unsigned char *c = (const unsigned char *)p; for (size_t i = 0; i < n; i++) { h ^= c[i]; h *= 1099511628211ULL; } }
  void str(const std::string &s) { bytes(s.data(), s.size()); bytes("\0", 1); }
  void ld(long double v) { unsigned char b[10]; memcpy(b, &v, 10); bytes(b, 10); }
  void i64(int64_t v) { bytes(&v, sizeof v); }
};

// ---- entropy -> structured values. All randomness comes from a rapidcheck-generated vector<uint64_t>
// (or, when replaying, from nowhere: replay files hold the decoded case). Zero entropy = lowest value.
struct Draw {
  const std::vector<uint64_t> &e; size_t i = 0;
  explicit Draw(const std::vector<uint64_t> &v) : e(v) {}
  uint64_t raw() { return i < e.size() ? e[i++] : 0; }
  // uniform in [0,1) with 64 random mantissa bits (not representable in double in general)
  long double unit() { return (long double)(raw() >> 1) * 0x1p-63L; }
  long double U(long double a, long double b) { return a + (b - a) * unit(); }
  bool coin(double p) { return (raw() >> 11) * 0x1p-53 < p; }
  int range(int lo, int hi) { return lo + (int)(raw() % (uint64_t)(hi - lo + 1)); }   // inclusive
  long double logU(long double lo, long double hi) { return expl(U(logl(lo), logl(hi))); }
  long double sign() { return (raw() & 1) ? -1.0L : 1.0L; }
};

// ---- JSON helpers
inline std::string jesc(const std::string &s) {
  std::string o; for (unsigned char c : s) { if (c == '"' || c == '\\') { o += '\\'; o += c; } else if (c == '\n') o += "\\n"; else if (c == '\t') o += "\\t"; else if (c < 0x20 || c >= 0x7f) { char b[8]; snprintf(b, sizeof b, "\\u%04x", c); o += b; } else o += c; } return o; }

// ---- per-process statistics, written as one JSON object at exit (or before a trap)
struct Stats {
  std::string path;
  std::map<std::string, long long> counters;
  std::map<std::string, double> maxima;
  std::set<uint64_t> distinct;           // hashes of distinct non-trivial cases
  std::vector<std::string> samples;      // JSON fragments
  std::vector<std::string> findings;     // JSON fragments (known-finding candidates, violations)
  size_t max_samples = 12;
  void count(const std::string &k, long long n = 1) { counters[k] += n; }
  void maxi(const std::string &k, double v) { auto it = maxima.find(k); if (it == maxima.end() || v > it->second) maxima[k] = v; }
  void sample(const std::string &json) { if (samples.size() < max_samples) samples.push_back(json); }
  void flush() const {
    if (path.empty()) return;
    std::ofstream f(path + ".tmp");
    f << "{\"counters\":{"; bool first = true;
    for (auto &kv : counters) { f << (first ? "" : ",") << "\"" << jesc(kv.first) << "\":" << kv.second; first = false; }
    f << "},\"maxima\":{"; first = true;
    for (auto &kv : maxima) { f << (first ? "" : ",") << "\"" << jesc(kv.first) << "\":" << (std::isfinite(kv.second) ? kv.second : 1e308); first = false; }
    f << "},\"distinct\":["; first = true;
    for (auto h : distinct) { f << (first ? "" : ",") << "\"" << std::hex << h << std::dec << "\""; first = false; }
    f << "],\"samples\":["; first = true;
    for (auto &s : samples) { f << (first ? "" : ",") << s; first = false; }
    f << "],\"findings\":["; first = true;
    for (auto &s : findings) { f << (first ? "" : ",") << s; first = false; }
    f << "]}\n"; f.close();
    rename((path + ".tmp").c_str(), path.c_str());
  }
};
inline Stats &stats() { static Stats s; return s; }

inline const char *arg_value(int argc, char **argv, const char *name, const char *def = nullptr) {
  for (int i = 1; i + 1 < argc; i++) if (!strcmp(argv[i], name)) return argv[i + 1];
  return def;
}
inline bool arg_flag(int argc, char **argv, const char *name) { for (int i = 1; i < argc; i++) if (!strcmp(argv[i], name)) return true; return false; }

inline uint64_t mix64(uint64_t x) { x += 0x9e3779b97f4a7c15ULL; x = (x ^ (x >> 30)) * 0xbf58476d1ce4e5b9ULL; x = (x ^ (x >> 27)) * 0x94d049bb133111ebULL; return x ^ (x >> 31); }
