// rapidcheck driver for the numerical properties C01-C07, C09 (C08 and C20 have their own drivers).
//   num --prop C01 --seed N --cases M --out stats.json --faildir DIR [--sols a,b] [--K 32]
//   num --replay FILE [--K 32]
#include <rapidcheck.h>
#include "specs.hpp"
#include <sys/stat.h>

static std::string g_prop, g_faildir; static double g_K = 64;
static long g_shrink_budget = -1;   // -1: no failure seen yet in this sub-property; otherwise executions left for shrinking

static void write_file(const std::string &path, const std::string &text) { std::ofstream f(path); f << text; }
static std::string slug(std::string s) { for (auto &c : s) if (!isalnum((unsigned char)c)) c = '_'; return s; }

// evaluates one case, updates statistics; returns the label of the first violating evaluator ("" if none)
static std::string judge(const Spec &s, const NumCase &c, const std::string &sub, bool record) {
  long mc0 = mirror_compared(); auto out = run_case(s, c, g_K, g_prop);
  Stats &st = stats(); std::string bad; if (record && mirror_compared() > mc0) st.count("c_interface_mirror_comparisons", mirror_compared() - mc0);
  for (auto &o : out) {
    if (record) { st.count("evaluations"); st.count("evals:" + s.name);
      if (o.status == 3) st.count("skipped_near_switching_surface");
      if (o.status != 3 && o.err < 1e299) { int b = o.err <= 0 ? -20 : (int)floor(log2(o.err)); if (b > 40) b = 40; if (b < -20) b = -20; st.count("errhist_log2:" + std::to_string(b)); st.maxi("max_err:" + s.name + "/" + o.label + (c.prec ? "/ld" : "/d"), o.err); }
      if (o.errab >= 0) { st.maxi("max_errab:" + s.name + "/" + o.label + (c.prec ? "/ld" : "/d"), o.errab); int b = o.errab <= 0 ? -20 : (int)floor(log2(o.errab)); st.count("errabhist_log2:" + std::to_string(b)); }
      if (o.directed) st.count("evaluations_under_directed_rounding");
      if (o.status == 0 && !o.finding_cell && o.err < 1e299) st.maxi(std::string(o.directed ? "max_err_eps_mag(clean cells, directed rounding):" : "max_err_eps_mag(clean cells):") + (c.prec ? "ld" : "d"), o.err);
      if (o.status == 2) { st.count("known_finding_cells:" + o.finding);
        std::string f = g_faildir + "/finding_" + slug(o.finding) + ".case";
        struct stat sb; if (stat(f.c_str(), &sb) != 0) { NumCase cc = c; write_file(f, case_to_text(cc, g_prop, o.label)); st.findings.push_back("{\"key\":\"" + jesc(o.finding) + "\",\"file\":\"" + jesc(f) + "\",\"note\":\"" + jesc(o.note) + "\"}"); } } }
    if (o.status == 1 && bad.empty()) bad = o.label;
  }
  if (!bad.empty()) { // every failing execution overwrites the file, so after shrinking it holds the minimal case
    write_file(g_faildir + "/fail_" + slug(sub) + ".case", case_to_text(c, g_prop, bad));
    std::string detail; for (auto &o : out) if (o.status == 1) { detail += o.label + ": lib=" + decld(o.lib) + " ref=" + str(o.ref) + " err=" + std::to_string(o.err) + " eps*mag " + o.note + "; "; }
    write_file(g_faildir + "/fail_" + slug(sub) + ".txt", detail);
  }
  if (record && st.samples.size() < st.max_samples && (st.counters["cases"] % 97) == 1) st.sample(case_to_json(c, &out));
  return bad;
}

static int replay(const std::string &file) {
  std::ifstream f(file); std::stringstream ss; ss << f.rdbuf(); NumCase c; std::string prop;
  if (!case_from_text(ss.str(), c, prop)) { fprintf(stderr, "not a numcase file: %s\n", file.c_str()); return 2; }
  g_prop = prop; const Spec *s = find_spec(c.sol); if (!s) { fprintf(stderr, "unknown solution %s\n", c.sol.c_str()); return 2; }
  c.only.clear();   // a replay evaluates the whole case (both phases, all relations): the label in the file is informational
  auto out = run_case(*s, c, g_K, prop); int worst = 0;
  for (auto &o : out) { fprintf(stderr, "  %-28s lib=%-26s ref=%s mag=%s err=%.4g eps*mag status=%d %s\n", o.label.c_str(), decld(o.lib).c_str(), str(o.ref).c_str(), str(Q(o.ref.m)).c_str(), o.err, o.status, o.note.c_str()); if (o.status == 1) worst = std::max(worst, 2); if (o.status == 2) worst = std::max(worst, 1); }
  fprintf(stderr, "REPLAY %s\n", worst == 2 ? "violation" : worst == 1 ? "finding" : "pass");
  return worst == 2 ? 1 : worst == 1 ? 3 : 0;
}

int main(int argc, char **argv) {
  if (!freopen("/dev/null", "w", stdout)) {}   // sod.cpp prints through printf
  g_K = atof(arg_value(argc, argv, "--K", "64"));
  if (const char *r = arg_value(argc, argv, "--replay")) return replay(r);
  g_prop = arg_value(argc, argv, "--prop", "C01"); uint64_t seed = strtoull(arg_value(argc, argv, "--seed", "1"), 0, 10); int cases = atoi(arg_value(argc, argv, "--cases", "100"));
  g_faildir = arg_value(argc, argv, "--faildir", "."); stats().path = arg_value(argc, argv, "--out", ""); std::string sols = arg_value(argc, argv, "--sols", "");
  mkdir(g_faildir.c_str(), 0755);
  bool c09 = g_prop == "C09"; int failures = 0;
  for (auto &s : all_specs()) {
    if (std::find(s.props.begin(), s.props.end(), g_prop) == s.props.end()) continue;
    if (!sols.empty() && ("," + sols + ",").find("," + s.name + ",") == std::string::npos) continue;
    for (int prec = 0; prec < 2; prec++) {
      std::string sub = s.name + (prec ? "/ld" : "/d");
      int npar = 0; { NumCase probe = make_case(s, prec, {}, false); npar = probe.params.size(); }
      const size_t nent = 4 * npar + 64;
      rc::detail::TestParams tp; tp.seed = mix64(seed ^ mix64(std::hash<std::string>()(sub))); tp.maxSuccess = std::max(1, npar > 100 ? cases / 4 : cases); tp.maxSize = 100;
      rc::detail::TestMetadata md; md.id = g_prop + ":" + sub; md.description = md.id;
      g_shrink_budget = -1;
      auto prop_fn = [&]() {
        // bounded shrinking: after the first failure at most 400 further executions are evaluated; the rest pass
        // immediately so that rapidcheck's shrinker terminates (the last failing case written is the replay file)
        if (g_shrink_budget == 0) return; if (g_shrink_budget > 0) g_shrink_budget--;
        auto ent = *rc::gen::container<std::vector<uint64_t>>(nent, rc::gen::resize(rc::kNominalSize, rc::gen::arbitrary<uint64_t>()));
        int mode = 0;   // 0 = one third of the parameters log-scaled, 1 = dominance sweep on every parameter family, 2 = corner of the admissible box
        if (c09) { uint64_t sel = ent.empty() ? 0 : ent.back() % 10; mode = sel < 1 ? 2 : 1; }
        if (mode == 2) for (auto &e : ent) e = (e >> 63) ? ~0ULL : 0ULL;
        NumCase c = make_case(s, prec, ent, true);
        Stats &st = stats(); st.count("cases"); st.count("class:solution=" + s.name); st.count(std::string("class:scalar=") + (prec ? "long double" : "double")); st.count(std::string("class:mode=") + (mode == 0 ? "mixed" : mode == 1 ? "sweep" : "corner"));
        bool logscaled = false; for (auto &kv : c.params) if (kv.second != 0 && (fabsl(kv.second) < 0.05L || fabsl(kv.second) > 50.0L)) logscaled = true; if (logscaled) st.count("class:has_log_scaled_parameter");
        if (nontrivial(c)) { st.count("class:nontrivial"); st.distinct.insert(case_hash(c)); }
        write_file(g_faildir + "/current.case", case_to_text(c, g_prop, ""));   // survives a crash of the library under test
        std::string bad = judge(s, c, sub, true);
        if (bad.empty() && c09 && prec == 0) { // common-input sub-stream: the same double inputs through the long double interface
          NumCase c2 = c; c2.prec = 1; if (c2.params.count("Gamma") && c2.sol == "sod_1d") c2.params["mu"] = (c2.params["Gamma"] - 1) / (c2.params["Gamma"] + 1);   /* documented coupling, to working precision */ st.count("class:common_input_pair"); bad = judge(s, c2, sub + "+common", true); }
        if (!bad.empty()) { if (g_shrink_budget < 0) g_shrink_budget = 400; RC_FAIL("violation at " + sub + " " + bad); }
      };
      auto result = rc::detail::checkTestable(prop_fn, md, tp);
      if (!result.template is<rc::detail::SuccessResult>()) { failures++;
        std::string ff = g_faildir + "/fail_" + slug(sub) + ".case"; struct stat sb; if (stat(ff.c_str(), &sb) != 0) ff = g_faildir + "/fail_" + slug(sub + "+common") + ".case";
        std::ostringstream msg; rc::detail::printResultMessage(result, msg);
        stats().findings.push_back("{\"violation\":true,\"sub\":\"" + jesc(sub) + "\",\"file\":\"" + jesc(ff) + "\",\"rapidcheck\":\"" + jesc(msg.str().substr(0, 600)) + "\"}"); }
      stats().flush();
    }
  }
  stats().flush();
  return failures ? 1 : 0;
}
