// C13, byte-level: libFuzzer feeds raw bytes as the solution string (first byte picks handle and scalar type); the oracle is the
// same reference normaliser as in the rapidcheck driver. A disagreement is written to VERIF_FAILDIR and trapped.
#include "names.hpp"
static std::vector<std::string> g_cat;
extern "C" int LLVMFuzzerInitialize(int *, char ***) { if (!freopen("/dev/null", "w", stdout)) {} g_cat = read_catalogue(false); if (const char *p = getenv("VERIF_STATS")) stats().path = p; atexit([] { stats().flush(); });
  if (const char *dir = getenv("VERIF_SEED_CORPUS")) for (size_t i = 0; i < g_cat.size(); i++) { std::ofstream(std::string(dir) + "/name_" + std::to_string(i), std::ios::binary) << char(i) << g_cat[i]; std::ofstream(std::string(dir) + "/dec_" + std::to_string(i), std::ios::binary) << char(i + 64) << "-" << g_cat[i].substr(0, 3) << "  " << g_cat[i].substr(3) << "- "; }
  return 0; }
extern "C" int LLVMFuzzerTestOneInput(const uint8_t *data, size_t size) {
  if (size < 1) return 0; C13Case c; c.prec = data[0] & 1; c.handle = HANDLES[(data[0] >> 1) % NHANDLES]; c.s.assign((const char *)data + 1, size - 1);
  std::map<std::string, long> cls; std::string r = c13_case(g_cat, c.handle, c.s, c.prec, cls); { Quiet q; masa_verif_reset(); }
  Stats &st = stats(); st.count("cases"); st.count("evaluations"); for (auto &kv : cls) st.count("class:" + kv.first, kv.second);
  bool sep2 = c.s.find("--") != std::string::npos || c.s.find("  ") != std::string::npos || c.s.find("- ") != std::string::npos || c.s.find(" -") != std::string::npos; if (cls["resolves"] && c.s != norm(c.s)) { st.count("class:decorated_and_resolves"); if (sep2) { st.count("class:nontrivial"); Hasher h; h.str(c.s); st.distinct.insert(h.h); } }
  if (cls["resolves"] && st.samples.size() < 6 && c.s != norm(c.s) && st.counters["cases"] % 50 == 1) st.sample("{\"name\":\"" + jesc(show(c.s)) + "\",\"normal_form\":\"" + jesc(norm(c.s)) + "\"}");
  if (st.counters["cases"] % 5000 == 0) st.flush();
  if (!r.empty()) { if (const char *d = getenv("VERIF_FAILDIR")) { std::ofstream(std::string(d) + "/fail_C13.case", std::ios::binary) << c13_text(c); std::ofstream(std::string(d) + "/fail_C13.txt") << r; } st.flush(); fprintf(stderr, "C13 oracle violated: %s\n", r.c_str()); __builtin_trap(); }
  return 0; }
