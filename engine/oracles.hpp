// Reference side of the numerical properties C01-C09, C20.
// Two independent ingredients per solution, neither of which is a copy of the library's source terms:
//   (1) the manufactured FIELDS, transcribed from the documentation, generic in the number type;
//   (2) the governing OPERATOR written as a textbook writes it (conserved quantities, fluxes built
//       from field gradients), differentiated by nested forward-mode AD in binary128.
// Every result is a Q carrying value v and first-order magnitude m (see adm.hpp / DESIGN.md 3.3).
#pragma once
#include "adm.hpp"
#include <map>
#include <string>
#include <array>
#include <vector>
#include <functional>
#include <stdexcept>

typedef std::map<std::string, Q> PM;
template <int N> using D1 = Dual<Q, N>;

inline Q par(const PM &p, const char *n) { auto it = p.find(n); if (it == p.end()) throw std::runtime_error(std::string("parameter not registered by the solution: ") + n); return it->second; }
inline Q par0(const PM &p, const char *n) { auto it = p.find(n); return it == p.end() ? Q(0) : it->second; }

template <class S> S royterm(const PM &p, const std::string &amp, const std::string &a, int kind, const S &x, const char *L = "L") {
  S arg = S(par(p, a.c_str())) * S(qpi()) * x / S(par(p, L));
  return S(par(p, amp.c_str())) * (kind ? cos(arg) : sin(arg));
}

// ------------------------------------------------------------------ Cartesian compressible flow
// fields f = {rho,u,v,w,p}; N independent variables, nsp spatial, time last if hastime.
template <int N, class FieldF>
void cart_residual(const Q *ptq, FieldF F, int nsp, bool hastime, Q Gamma, Q mu, Q kcond, Q R, Q out[5]) {
  typedef D1<N> S;
  std::array<S, N> x; for (int i = 0; i < N; i++) { x[i] = S(ptq[i]); x[i].d[i] = Q(1); }
  std::array<Dual<S, N>, N> xi; for (int i = 0; i < N; i++) { xi[i] = Dual<S, N>(x[i]); xi[i].d[i] = S(1); }
  auto f = F(xi); Compound operator_level;
  S rho = f[0].v, u[3] = {f[1].v, f[2].v, f[3].v}, p = f[4].v;
  S et = p / ((S(Gamma) - S(1)) * rho) + (u[0] * u[0] + u[1] * u[1] + u[2] * u[2]) / S(2);
  S cons[5]; cons[0] = rho; for (int i = 0; i < 3; i++) cons[1 + i] = rho * u[i]; cons[4] = rho * et;
  Dual<S, N> T = f[4] / (f[0] * Dual<S, N>(S(R)));
  S divu = S(0); for (int i = 0; i < nsp; i++) divu = divu + f[1 + i].d[i];
  S tau[3][3];
  for (int i = 0; i < 3; i++) for (int j = 0; j < 3; j++) {
    S gij = (j < nsp) ? f[1 + i].d[j] : S(0); S gji = (i < nsp) ? f[1 + j].d[i] : S(0);
    tau[i][j] = S(mu) * (gij + gji); if (i == j) tau[i][j] = tau[i][j] - S(mu) * S(2) / S(3) * divu; }
  S fl[3][5];
  for (int j = 0; j < nsp; j++) {
    fl[j][0] = rho * u[j];
    for (int i = 0; i < 3; i++) { fl[j][1 + i] = rho * u[i] * u[j] - tau[i][j]; if (i == j) fl[j][1 + i] = fl[j][1 + i] + p; }
    S H = et + p / rho;
    fl[j][4] = rho * u[j] * H - S(kcond) * T.d[j];
    for (int i = 0; i < 3; i++) fl[j][4] = fl[j][4] - u[i] * tau[i][j]; }
  for (int e = 0; e < 5; e++) { Q r = Q(0);
    if (hastime) r = r + cons[e].d[N - 1];
    for (int j = 0; j < nsp; j++) r = r + fl[j][e].d[j];
    out[e] = r; }
}

struct CartRoy {   // euler_1d/2d/3d, euler_transient_*, navierstokes_2d/3d_compressible
  template <class X> static auto fields(const PM &p, const X &xi, int nsp, bool tr) -> std::array<typename std::decay<decltype(xi[0])>::type, 5> {
    typedef typename std::decay<decltype(xi[0])>::type S; std::array<S, 5> f; const char *nm[5] = {"rho", "u", "v", "w", "p"};
    // documented forms (doxygen/solutions/euler.page, cns.page): 0 = sin, 1 = cos per (field, coordinate x,y,z,t)
    int kind[5][4] = {{0, 1, 0, 0}, {0, 1, 1, 1}, {1, 0, 0, 0}, {0, 0, 1, 1}, {1, 0, 1, 1}};
    const char *sx[4] = {"x", "y", "z", "t"};
    for (int q = 0; q < 5; q++) { std::string n = nm[q]; if (!p.count(n + "_0")) { f[q] = S(0); continue; } S r = S(par(p, (n + "_0").c_str()));
      for (int j = 0; j < nsp; j++) r = r + royterm<S>(p, n + "_" + sx[j], "a_" + n + sx[j], kind[q][j], xi[j]);
      if (tr) r = r + royterm<S>(p, n + "_t", "a_" + n + "t", kind[q][3], xi[nsp]);
      f[q] = r; }
    return f; }
  static Q ref(const PM &p, const Q *x, int nsp, bool tr, bool visc, int eq) { Q out[5]; Q mu = visc ? par(p, "mu") : Q(0), k = visc ? par(p, "k") : Q(0), R = visc ? par(p, "R") : Q(1);
    int N = nsp + (tr ? 1 : 0);
    auto F = [&](auto xi) { return fields(p, xi, nsp, tr); };
    if (N == 1) cart_residual<1>(x, F, nsp, tr, par(p, "Gamma"), mu, k, R, out);
    if (N == 2) cart_residual<2>(x, F, nsp, tr, par(p, "Gamma"), mu, k, R, out);
    if (N == 3) cart_residual<3>(x, F, nsp, tr, par(p, "Gamma"), mu, k, R, out);
    if (N == 4) cart_residual<4>(x, F, nsp, tr, par(p, "Gamma"), mu, k, R, out);
    return out[eq]; }
  static Q fld(const PM &p, const Q *x, int nsp, bool tr, int which) { std::array<Q, 4> xi = {x[0], x[1], x[2], x[3]}; return fields(p, xi, nsp, tr)[which]; }
  static Q grad(const PM &p, const Q *pt, int nsp, int which, int dir) { typedef D1<4> S; std::array<S, 4> x; for (int i = 0; i < 4; i++) { x[i] = S(pt[i]); x[i].d[i] = Q(1); } auto f = fields(p, x, nsp, false); return f[which].d[dir]; }
};

// ------------------------------------------------------------------ axisymmetric (r,z[,t]); fields {rho,u(radial),w(axial),p}
struct AxiVariant { bool asbuilt_stress = false;      // tau_rz = mu du/dz only, hoop stress dropped (as built)
                    bool asbuilt_work_sign = false; };// viscous work enters the steady energy equation with the opposite sign
template <int N, class FieldF>
void axi_residual(const Q *ptq, FieldF F, bool hastime, Q Gamma, Q mu, Q kcond, Q R, AxiVariant var, Q out[4]) {
  typedef D1<N> S;
  std::array<S, N> x; for (int i = 0; i < N; i++) { x[i] = S(ptq[i]); x[i].d[i] = Q(1); }
  std::array<Dual<S, N>, N> xi; for (int i = 0; i < N; i++) { xi[i] = Dual<S, N>(x[i]); xi[i].d[i] = S(1); }
  auto f = F(xi); Compound operator_level;
  S r = x[0];
  S rho = f[0].v, u = f[1].v, w = f[2].v, p = f[3].v;
  S et = p / ((S(Gamma) - S(1)) * rho) + (u * u + w * w) / S(2); S H = et + p / rho;
  Dual<S, N> T = f[3] / (f[0] * Dual<S, N>(S(R)));
  S ur = f[1].d[0], uz = f[1].d[1], wr = f[2].d[0], wz = f[2].d[1];
  S div = ur + u / r + wz;
  S trr = S(mu) * (S(2) * ur - S(2) / S(3) * div), tzz = S(mu) * (S(2) * wz - S(2) / S(3) * div), trz = S(mu) * (uz + wr), ttt = S(mu) * (S(2) * u / r - S(2) / S(3) * div);
  if (var.asbuilt_stress) { trz = S(mu) * uz; ttt = S(0); }
  S qr = -S(kcond) * T.d[0], qz = -S(kcond) * T.d[1];
  S sg = S(1); if (var.asbuilt_work_sign) sg = S(-1);
  S Fr[4] = {r * rho * u, r * (rho * u * u + p - trr), r * (rho * u * w - trz), r * (rho * u * H + qr - sg * (u * trr + w * trz))};
  S Fz[4] = {rho * w, rho * u * w - trz, rho * w * w + p - tzz, rho * w * H + qz - sg * (u * trz + w * tzz)};
  S cons[4] = {rho, rho * u, rho * w, rho * et};
  for (int e = 0; e < 4; e++) { Q res = Fr[e].d[0] / r.v + Fz[e].d[1]; if (hastime) res = res + cons[e].d[N - 1]; out[e] = res; }
  out[1] = out[1] - (p.v - ttt.v) / r.v;   // geometric source of the radial momentum equation
}
struct Axi {
  // variant 0: axisymmetric_euler / axi_euler_transient / axi_cns_transient forms; variant 1: axisymmetric_navierstokes_compressible
  template <class X> static auto fields(const PM &p, const X &xi, int variant, bool tr) -> std::array<typename std::decay<decltype(xi[0])>::type, 4> {
    typedef typename std::decay<decltype(xi[0])>::type S; std::array<S, 4> f; auto g = [&](const char *n) { return S(par(p, n)); }; S pi = S(qpi()); S L = g("L");
    S r = xi[0], z = xi[1];
    if (variant == 0) {
      f[0] = g("rho_0") + g("rho_r") * cos(g("a_rhor") * pi * r / L) + g("rho_z") * sin(g("a_rhoz") * pi * z / L);
      f[2] = g("w_0") + g("w_r") * cos(g("a_wr") * pi * r / L) + g("w_z") * sin(g("a_wz") * pi * z / L);
      f[3] = g("p_0") + g("p_r") * sin(g("a_pr") * pi * r / L) + g("p_z") * cos(g("a_pz") * pi * z / L);
      if (!tr) f[1] = g("u_r") * g("u_z") * (cos(g("a_ur") * pi * r / L) - S(1)) * sin(g("a_uz") * pi * z / L);
      else { S t = xi[2]; f[0] = f[0] + g("rho_t") * sin(g("a_rhot") * pi * t / L); f[2] = f[2] + g("w_t") * cos(g("a_wt") * pi * t / L); f[3] = f[3] + g("p_t") * cos(g("a_pt") * pi * t / L);
        f[1] = g("u_r") * (cos(g("a_ur") * pi * r / L) - S(1)) * (g("u_z") * sin(g("a_uz") * pi * z / L) + g("u_t") * cos(g("a_ut") * pi * t / L)); }
    } else {
      f[0] = g("rho_0") + g("rho_1") * cos(g("a_rhor") * pi * r / L) * sin(g("a_rhoz") * pi * z / L);
      f[1] = g("u_1") * (cos(g("a_ur") * pi * r / L) - S(1)) * sin(g("a_uz") * pi * z / L);
      f[2] = g("w_0") + g("w_1") * cos(g("a_wr") * pi * r / L) * sin(g("a_wz") * pi * z / L);
      f[3] = g("p_0") + g("p_1") * sin(g("a_pr") * pi * r / L) * cos(g("a_pz") * pi * z / L);
    }
    return f; }
  static Q ref(const PM &p, const Q *x, int variant, bool tr, bool visc, int eq, AxiVariant var = AxiVariant()) { Q out[4]; Q mu = visc ? par(p, "mu") : Q(0), k = visc ? par(p, "k") : Q(0), R = visc ? par(p, "R") : Q(1);
    auto F = [&](auto xi) { return fields(p, xi, variant, tr); };
    if (tr) axi_residual<3>(x, F, true, par(p, "Gamma"), mu, k, R, var, out); else axi_residual<2>(x, F, false, par(p, "Gamma"), mu, k, R, var, out);
    return out[eq]; }
  static Q fld(const PM &p, const Q *x, int variant, bool tr, int which) { std::array<Q, 3> xi = {x[0], x[1], x[2]}; return fields(p, xi, variant, tr)[which]; }
};

// ------------------------------------------------------------------ heat conduction
struct Heat {
  template <class S> static S T(const PM &p, const std::array<S, 4> &xi, int dim, bool unsteady) {
    auto g = [&](const char *n) { return S(par0(p, n)); };
    S t = xi[3];
    S r = cos(g("A_x") * xi[0] + g("A_t") * t);
    if (dim >= 2) r = r * cos(g("B_y") * xi[1] + g("B_t") * t);
    if (dim >= 3) r = r * cos(g("C_z") * xi[2] + g("C_t") * t);
    if (unsteady) r = r * cos(g("D_t") * t);
    return r; }
  // x: dim spatial coordinates followed by t when unsteady
  static Q ref(const PM &p, const Q *x, int dim, bool unsteady) {
    typedef D1<4> S; std::array<S, 4> X; for (int i = 0; i < 4; i++) { X[i] = S(i < dim ? x[i] : (i == 3 && unsteady ? x[dim] : Q(0))); X[i].d[i] = Q(1); }
    std::array<Dual<S, 4>, 4> xi; for (int i = 0; i < 4; i++) { xi[i] = Dual<S, 4>(X[i]); xi[i].d[i] = S(1); }
    auto g = [&](const char *n) { return Dual<S, 4>(S(par0(p, n))); };
    Dual<S, 4> Tf = T<Dual<S, 4>>(p, xi, dim, unsteady); Compound operator_level;
    Dual<S, 4> k = g("k_0") + g("k_1") * Tf + g("k_2") * Tf * Tf;
    Dual<S, 4> cp = g("cp_0") + g("cp_1") * Tf + g("cp_2") * Tf * Tf;
    Q res = Q(0);
    if (unsteady) res = res + (g("rho") * cp * Tf.d[3]).v.v;
    for (int j = 0; j < dim; j++) { S fl = (k.v * Tf.d[j]); res = res - fl.d[j]; }
    return res; }
  static Q fld(const PM &p, const Q *x, int dim, bool unsteady) { std::array<Q, 4> X = {Q(0), Q(0), Q(0), Q(0)}; for (int i = 0; i < dim; i++) X[i] = x[i]; if (unsteady) X[3] = x[dim]; return T<Q>(p, X, dim, unsteady); }
};

// ------------------------------------------------------------------ Laplace, Burgers
struct Lap {
  template <class S> static S phi(const PM &p, const S &x, const S &y) { S Lx(par(p, "Lx")), Ly(par(p, "Ly")); auto sq = [](S a) { return a * a; }; return sq(Ly * Ly - y * y) + sq(Lx * Lx - x * x); }
  static Q ref(const PM &p, const Q *x) { typedef D1<2> S; typedef Dual<S, 2> I; S X[2]; for (int i = 0; i < 2; i++) { X[i] = S(x[i]); X[i].d[i] = Q(1); } I xi[2]; for (int i = 0; i < 2; i++) { xi[i] = I(X[i]); xi[i].d[i] = S(1); }
    I ph = phi<I>(p, xi[0], xi[1]); Compound operator_level; return ph.d[0].d[0] + ph.d[1].d[1]; }
};
struct Burg {
  template <class S> static std::array<S, 2> uv(const PM &p, const S &x, const S &y, const S &t, bool with_t = true) { auto g = [&](const char *n) { return S(par(p, n)); }; S pi = S(qpi()), L = g("L");
    S u = g("u_0") + g("u_x") * sin(g("a_ux") * pi * x / L) + g("u_y") * cos(g("a_uy") * pi * y / L);
    S v = g("v_0") + g("v_x") * cos(g("a_vx") * pi * x / L) + g("v_y") * sin(g("a_vy") * pi * y / L);
    if (with_t) { u = u + g("u_t") * cos(g("a_ut") * pi * t / L); v = v + g("v_t") * sin(g("a_vt") * pi * t / L); }
    return {u, v}; }
  static Q ref(const PM &p, const Q *x, int eq) { typedef D1<3> S; S X(x[0]), Y(x[1]), T(x[2]); X.d[0] = Q(1); Y.d[1] = Q(1); T.d[2] = Q(1); auto f = uv<S>(p, X, Y, T); Compound operator_level;
    S uu = f[0] * f[0], uv_ = f[0] * f[1], vv = f[1] * f[1]; if (eq == 0) return f[0].d[2] + uu.d[0] + uv_.d[1]; return f[1].d[2] + uv_.d[0] + vv.d[1]; }
};

// ------------------------------------------------------------------ 4-D power-law Navier-Stokes
struct NS4 {
  template <class S> static S prim(const PM &p, const std::string &n, const S *x) { auto g = [&](const std::string &pre, const char *suf) { return S(par(p, (pre + n + suf).c_str())); };
    S tp = S(Q(2)) * S(qpi()); S kx = tp / S(par(p, "Lx")), ky = tp / S(par(p, "Ly")), kz = tp / S(par(p, "Lz")); const S &X = x[0], &Y = x[1], &Z = x[2], &T = x[3];
    return g("a_", "0") * cos(g("g_", "0") + g("f_", "0") * T)
      + g("a_", "x") * cos(g("c_", "x") + g("b_", "x") * kx * X) * cos(g("g_", "x") + g("f_", "x") * T)
      + g("a_", "xy") * cos(g("c_", "xy") + g("b_", "xy") * kx * X) * cos(g("e_", "xy") + g("d_", "xy") * ky * Y) * cos(g("g_", "xy") + g("f_", "xy") * T)
      + g("a_", "xz") * cos(g("c_", "xz") + g("b_", "xz") * kx * X) * cos(g("e_", "xz") + g("d_", "xz") * kz * Z) * cos(g("g_", "xz") + g("f_", "xz") * T)
      + g("a_", "y") * cos(g("c_", "y") + g("b_", "y") * ky * Y) * cos(g("g_", "y") + g("f_", "y") * T)
      + g("a_", "yz") * cos(g("c_", "yz") + g("b_", "yz") * ky * Y) * cos(g("e_", "yz") + g("d_", "yz") * kz * Z) * cos(g("g_", "yz") + g("f_", "yz") * T)
      + g("a_", "z") * cos(g("c_", "z") + g("b_", "z") * kz * Z) * cos(g("g_", "z") + g("f_", "z") * T); }
  static Q ref(const PM &p, const Q *pt, int eq) { typedef D1<4> S; typedef Dual<S, 4> I;
    S x[4]; for (int i = 0; i < 4; i++) { x[i] = S(pt[i]); x[i].d[i] = Q(1); } I xi[4]; for (int i = 0; i < 4; i++) { xi[i] = I(x[i]); xi[i].d[i] = S(1); }
    I rho = prim<I>(p, "rho", xi), u[3] = {prim<I>(p, "u", xi), prim<I>(p, "v", xi), prim<I>(p, "w", xi)}, T = prim<I>(p, "T", xi); Compound operator_level;
    auto g = [&](const char *n) { return S(par(p, n)); };
    S mu = g("mu_r") * powc(T.v / g("T_r"), par(p, "beta")); S lam = g("lambda_r") / g("mu_r") * mu, kap = g("kappa_r") / g("mu_r") * mu;
    S pr = rho.v * g("R") * T.v; S e = g("R") * T.v / (g("gamma") - S(1)) + (u[0].v * u[0].v + u[1].v * u[1].v + u[2].v * u[2].v) / S(2);
    S div = u[0].d[0] + u[1].d[1] + u[2].d[2]; S tau[3][3]; for (int i = 0; i < 3; i++) for (int j = 0; j < 3; j++) { tau[i][j] = mu * (u[i].d[j] + u[j].d[i]); if (i == j) tau[i][j] = tau[i][j] + lam * div; }
    S cons[5] = {rho.v, rho.v * u[0].v, rho.v * u[1].v, rho.v * u[2].v, rho.v * e}; Q res = cons[eq].d[3];
    for (int j = 0; j < 3; j++) { S fl; if (eq == 0) fl = rho.v * u[j].v; else if (eq < 4) { int i = eq - 1; fl = rho.v * u[i].v * u[j].v - tau[i][j]; if (i == j) fl = fl + pr; }
      else { fl = rho.v * u[j].v * e + pr * u[j].v - kap * T.d[j]; for (int i = 0; i < 3; i++) fl = fl - u[i].v * tau[i][j]; }
      res = res + fl.d[j]; }
    return res; }
  static Q fld(const PM &p, const Q *pt, const std::string &n) { if (n == "p") return prim<Q>(p, "rho", pt) * par(p, "R") * prim<Q>(p, "T", pt); return prim<Q>(p, n, pt); }
  static Q grad(const PM &p, const Q *pt, const std::string &n, int dir) { typedef D1<4> S; S x[4]; for (int i = 0; i < 4; i++) { x[i] = S(pt[i]); x[i].d[i] = Q(1); } if (n == "p") { S r = prim<S>(p, "rho", x) * S(par(p, "R")) * prim<S>(p, "T", x); return r.d[dir]; } return prim<S>(p, n, x).d[dir]; }
};

// ------------------------------------------------------------------ FANS-SA free shear (2D + time)
struct FreeShear {
  template <class S> static std::array<S, 5> fld(const PM &p, const S *x) { auto g = [&](const char *n) { return S(par(p, n)); }; S pi = S(qpi()), L = g("L"); const S &X = x[0], &Y = x[1], &T = x[2];
    S rho = g("rho_0") + g("rho_x") * sin(g("a_rhox") * pi * X / L) + g("rho_y") * cos(g("a_rhoy") * pi * Y / L) + g("rho_t") * sin(g("a_rhot") * pi * T / L);
    S u = g("u_0") + g("u_x") * sin(g("a_ux") * pi * X / L) + g("u_y") * cos(g("a_uy") * pi * Y / L) + g("u_t") * cos(g("a_ut") * pi * T / L);
    S v = g("v_0") + g("v_x") * cos(g("a_vx") * pi * X / L) + g("v_y") * sin(g("a_vy") * pi * Y / L) + g("v_t") * sin(g("a_vt") * pi * T / L);
    S pr = g("p_0") + g("p_x") * cos(g("a_px") * pi * X / L) + g("p_y") * sin(g("a_py") * pi * Y / L) + g("p_t") * cos(g("a_pt") * pi * T / L);
    S nu = g("nu_sa_0") + g("nu_sa_x") * cos(g("a_nusax") * pi * X / L) + g("nu_sa_y") * cos(g("a_nusay") * pi * Y / L) + g("nu_sa_t") * cos(g("a_nusat") * pi * T / L);
    return {rho, u, v, pr, nu}; }
  // variant bit0: f_v1 frozen when mu_t is differentiated (as built); bit1: unsteady energy term e*d(rho)/dt (as built)
  static Q ref(const PM &p, const Q *pt, int eq, int variant) { typedef D1<3> S; typedef Dual<S, 3> I;
    S x[3]; for (int i = 0; i < 3; i++) { x[i] = S(pt[i]); x[i].d[i] = Q(1); } I xi[3]; for (int i = 0; i < 3; i++) { xi[i] = I(x[i]); xi[i].d[i] = S(1); }
    auto f = fld<I>(p, xi); Compound operator_level; auto g = [&](const char *n) { return S(par(p, n)); };
    S rho = f[0].v, u[2] = {f[1].v, f[2].v}, pr = f[3].v, nu = f[4].v;
    S chi = rho * nu / g("mu"); S c3 = g("c_v1") * g("c_v1") * g("c_v1"); S fv1 = chi * chi * chi / (chi * chi * chi + c3);
    if (variant & 1) { fv1 = S(Q(fv1.v)); }
    S mut = rho * nu * fv1; S mu = g("mu");
    S cv = g("R") / (g("Gamma") - S(1)), cp = g("Gamma") * cv;
    I T = f[3] / (f[0] * I(g("R")));
    S div = f[1].d[0] + f[2].d[1]; S tau[2][2]; for (int i = 0; i < 2; i++) for (int j = 0; j < 2; j++) { tau[i][j] = (mu + mut) * (f[1 + i].d[j] + f[1 + j].d[i]); if (i == j) tau[i][j] = tau[i][j] - (mu + mut) * S(2) / S(3) * div; }
    S E = cv * T.v + (u[0] * u[0] + u[1] * u[1]) / S(2); S H = E + pr / rho;
    Q res;
    if (eq <= 3) { S cons[4] = {rho, rho * u[0], rho * u[1], rho * E}; res = cons[eq].d[2];
      if (eq == 3 && (variant & 2)) { S ke = rho * (u[0] * u[0] + u[1] * u[1]) / S(2); res = ke.d[2] + rho.d[2] * (cv * T.v).v; }
      for (int j = 0; j < 2; j++) { S fl; if (eq == 0) fl = rho * u[j]; else if (eq < 3) { int i = eq - 1; fl = rho * u[i] * u[j] - tau[i][j]; if (i == j) fl = fl + pr; }
        else { fl = rho * u[j] * H - (mu / g("Pr") + mut / g("Pr_t")) * cp * T.d[j]; for (int i = 0; i < 2; i++) fl = fl - u[i] * tau[i][j]; }
        res = res + fl.d[j]; } }
    else { // SA working variable, free shear: no wall destruction, production c_b1 |omega| rho nu
      S cons = rho * nu; res = cons.d[2];
      S omega = f[2].d[0] - f[1].d[1]; Q Om = fabs(omega.v);
      S gg = f[4].d[0] * f[4].d[0] + f[4].d[1] * f[4].d[1];
      for (int j = 0; j < 2; j++) { S fl = rho * u[j] * nu - (mu + rho * nu) * f[4].d[j] / g("sigma"); res = res + fl.d[j]; }
      res = res - par(p, "c_b1") * Om * rho.v * nu.v - par(p, "c_b2") / par(p, "sigma") * rho.v * gg.v; }
    return res; }
  static Q vorticity(const PM &p, const Q *pt) { typedef D1<3> S; S x[3]; for (int i = 0; i < 3; i++) { x[i] = S(pt[i]); x[i].d[i] = Q(1); } auto f = fld<S>(p, x); return f[2].d[0] - f[1].d[1]; }
  static Q field(const PM &p, const Q *pt, int which) { return fld<Q>(p, pt)[which]; }
};

// ------------------------------------------------------------------ FANS-SA wall bounded (2D steady)
struct WallBounded {
  template <class S> static std::array<S, 5> fld(const PM &p, const S *x) { auto g = [&](const char *n) { return S(par(p, n)); }; const S &X = x[0], &Y = x[1];
    S one = S(1), two = S(2);
    S C1 = -one / g("kappa") * log(g("kappa")) + g("C");
    S u_inf = g("M_inf") * sqrt(g("Gamma") * g("R") * g("T_inf"));
    S rho_inf = g("p_0") / g("R") / g("T_inf");
    S T_aw = g("T_inf") * (one + g("r_T") * (g("Gamma") - one) * g("M_inf") * g("M_inf") / two);
    S rho_w = g("p_0") / g("R") / T_aw;
    S A = sqrt(one - g("T_inf") / T_aw);
    S as = asin(A); S F_c = (T_aw / g("T_inf") - one) / (as * as);
    S nu_w = g("mu") / rho_w;
    S Re_x = rho_inf * u_inf * X / g("mu");
    S c_f = g("C_cf") / F_c * powc(one / F_c * Re_x, Q(-1) / Q(7));
    S u_tau = u_inf * sqrt(c_f / two);
    S y_plus = Y * u_tau / nu_w;
    S u_eq_plus = one / g("kappa") * log(one + g("kappa") * y_plus) + C1 * (one - exp(-y_plus / g("eta1")) - y_plus / g("eta1") * exp(-y_plus * g("b")));
    S u_eq = u_tau * u_eq_plus;
    S U = u_inf / A * sin(A / u_inf * u_eq);
    S V = g("eta_v") * u_tau * Y / X / S(14);
    S T = g("T_inf") * (one + g("r_T") * (g("Gamma") - one) * g("M_inf") * g("M_inf") * (one - U * U / (u_inf * u_inf)) / two);
    S RHO = g("p_0") / g("R") / T;
    S NU = g("kappa") * u_tau * Y - g("alpha") * Y * Y;
    return {RHO, U, V, T, NU}; }
  struct Aux { Q Sbar, Om, cv2, r; };
  static Q ref(const PM &p, const Q *pt, int eq, int variant, Aux *aux = nullptr) { typedef D1<2> S; typedef Dual<S, 2> I;
    S x[2]; for (int i = 0; i < 2; i++) { x[i] = S(pt[i]); x[i].d[i] = Q(1); } I xi[2]; for (int i = 0; i < 2; i++) { xi[i] = I(x[i]); xi[i].d[i] = S(1); }
    auto f = fld<I>(p, xi); Compound operator_level; auto g = [&](const char *n) { return S(par(p, n)); };
    S rho = f[0].v, u[2] = {f[1].v, f[2].v}, nu = f[4].v; I T = f[3]; S pr = g("p_0");
    S chi = rho * nu / g("mu"); S c3 = g("c_v1") * g("c_v1") * g("c_v1"); S fv1 = chi * chi * chi / (chi * chi * chi + c3);
    if (variant & 1) { fv1 = S(Q(fv1.v)); }
    S mut = rho * nu * fv1; S mu = g("mu");
    S cp = g("Gamma") * g("R") / (g("Gamma") - S(1)); S cv = cp / g("Gamma");
    S div = f[1].d[0] + f[2].d[1]; S tau[2][2]; for (int i = 0; i < 2; i++) for (int j = 0; j < 2; j++) { tau[i][j] = (mu + mut) * (f[1 + i].d[j] + f[1 + j].d[i]); if (i == j) tau[i][j] = tau[i][j] - (mu + mut) * S(2) / S(3) * div; }
    S E = cv * T.v + (u[0] * u[0] + u[1] * u[1]) / S(2); S H = E + pr / rho;
    Q res = Q(0);
    if (eq <= 3) {
      for (int j = 0; j < 2; j++) { S fl; if (eq == 0) fl = rho * u[j]; else if (eq < 3) { int i = eq - 1; fl = rho * u[i] * u[j] - tau[i][j]; if (i == j) fl = fl + pr; }
        else { fl = rho * u[j] * H - (mu / g("Pr") + mut / g("Pr_t")) * cp * T.d[j]; for (int i = 0; i < 2; i++) fl = fl - u[i] * tau[i][j]; }
        res = res + fl.d[j]; } }
    else { // SA with wall distance d = y
      Q d = pt[1];
      S omega = f[2].d[0] - f[1].d[1]; Q Om = fabs(omega.v);
      S gg = f[4].d[0] * f[4].d[0] + f[4].d[1] * f[4].d[1];
      for (int j = 0; j < 2; j++) { S fl = rho * u[j] * nu - (mu + rho * nu) * f[4].d[j] / g("sigma"); res = res + fl.d[j]; }
      FirstOrder closure_level;   // the SA closure scalars are evaluated unexpanded, through helper variables
      Q k2 = par(p, "kappa") * par(p, "kappa"); Q X = chi.v, F1 = fv1.v; Q fv2 = Q(1) - X / (Q(1) + X * F1);
      Q Sbar = nu.v * fv2 / (k2 * d * d); Q cv2 = par(p, "c_v2"), cv3 = par(p, "c_v3");
      Q Sm = (Sbar >= -cv2 * Om) ? Sbar : Om * (cv2 * cv2 * Om + cv3 * Sbar) / ((cv3 - Q(2) * cv2) * Om - Sbar);
      Q Ssa = Om + Sm; Q cw1 = par(p, "c_b1") / k2 + (Q(1) + par(p, "c_b2")) / par(p, "sigma");
      Q r = nu.v / (Ssa * k2 * d * d); Q r6 = r * r * r * r * r * r; Q gq = r + par(p, "c_w2") * (r6 - r); Q cw3 = par(p, "c_w3"); Q cw36 = cw3 * cw3 * cw3 * cw3 * cw3 * cw3; Q g6 = gq * gq * gq * gq * gq * gq;
      Q fw = gq * pow((Q(1) + cw36) / (g6 + cw36), Q(1) / Q(6));
      if (aux) { aux->Sbar = Sbar; aux->Om = Om; aux->cv2 = cv2; aux->r = r; }
      res = res - par(p, "c_b1") * Ssa * rho.v * nu.v + cw1 * fw * rho.v * nu.v * nu.v / (d * d) - par(p, "c_b2") / par(p, "sigma") * rho.v * gg.v; }
    return res; }
  static Q field(const PM &p, const Q *pt, int which) { return fld<Q>(p, pt)[which]; }
};

// ------------------------------------------------------------------ RANS-SA channel (1D in eta)
struct Channel {
  template <class S> static std::array<S, 2> fld(const S &eta) { S a1 = S(2), b1 = S(1), etam = S(Q(6)) / S(Q(10));
    S u = a1 * eta * (S(1) - eta / S(2)); S nu = b1 * eta - (etam + S(1)) * b1 * eta * eta / (S(2) * etam) + b1 * eta * eta * eta / (S(3) * etam); return {u, nu}; }
  struct Aux { Q Sbar, Om, cv2, r; };
  static Q ref(const PM &p, const Q *pt, int eq, Aux *aux = nullptr) { typedef D1<1> S; typedef Dual<S, 1> I; S x(pt[0]); x.d[0] = Q(1); I xi(x); xi.d[0] = S(1);
    auto f = fld<I>(xi); Compound operator_level; auto g = [&](const char *n) { return S(par(p, n)); };
    S u = f[0].v, nu = f[1].v, du = f[0].d[0], dnu = f[1].d[0]; S ire = S(1) / g("re_tau");
    S chi = nu * g("re_tau"); S c3 = g("cv1") * g("cv1") * g("cv1"); S fv1 = chi * chi * chi / (chi * chi * chi + c3); S nut = nu * fv1;
    if (eq == 0) { S fl = (ire + nut) * du; return fl.d[0] + Q(1); }
    S fl = (ire + nu) * dnu; FirstOrder closure_level;
    Q eta = pt[0]; Q k2 = par(p, "kappa") * par(p, "kappa"); Q fv2 = Q(1) - chi.v / (Q(1) + chi.v * fv1.v); Q Om = du.v;
    Q Sbar = nu.v * fv2 / (k2 * eta * eta); Q cv2 = par(p, "cv2"), cv3 = par(p, "cv3");
    Q Ssa = (Sbar >= -cv2 * Om) ? Om + Sbar : Om + Om * (cv2 * cv2 * Om + cv3 * Sbar) / ((cv3 - Q(2) * cv2) * Om - Sbar);
    Q r = nu.v / (Ssa * k2 * eta * eta); if (aux) { aux->Sbar = Sbar; aux->Om = Om; aux->cv2 = cv2; aux->r = r; }
    if (r > Q(10)) r = Q(10); Q r6 = r * r * r * r * r * r; Q gq = r + par(p, "cw2") * (r6 - r); Q cw3 = par(p, "cw3"); Q cw36 = cw3 * cw3 * cw3 * cw3 * cw3 * cw3; Q g6 = gq * gq * gq * gq * gq * gq;
    Q fw = gq * pow((Q(1) + cw36) / (g6 + cw36), Q(1) / Q(6)); Q cw1 = par(p, "cb1") / k2 + (Q(1) + par(p, "cb2")) / par(p, "sigma");
    return par(p, "cb1") * Ssa * nu.v - cw1 * fw * (nu.v / eta) * (nu.v / eta) + (fl.d[0] + par(p, "cb2") * dnu.v * dnu.v) / par(p, "sigma"); }
};

// ------------------------------------------------------------------ reacting Euler N/N2 (1D) with a caller-supplied K_eq(T)
struct Chem {
  template <class S> static std::array<S, 4> fld(const PM &p, const S &x) { auto g = [&](const char *n) { return S(par(p, n)); }; S pi = S(qpi()), L = g("L");
    S rN = g("rho_N_0") + g("rho_N_x") * sin(g("a_rho_N_x") * pi * x / L); S rN2 = g("rho_N2_0") + g("rho_N2_x") * cos(g("a_rho_N2_x") * pi * x / L);
    S u = g("u_0") + g("u_x") * sin(g("a_ux") * pi * x / L); S T = g("T_0") + g("T_x") * cos(g("a_Tx") * pi * x / L); return {rN, rN2, u, T}; }
  static Q ref(const PM &p, const Q *pt, int eq, const std::function<Q(Q)> &Keq) { typedef D1<1> S; S x(pt[0]); x.d[0] = Q(1); auto f = fld<S>(p, x); Compound operator_level; auto g = [&](const char *n) { return S(par(p, n)); };
    S rN = f[0], rN2 = f[1], u = f[2], T = f[3], rho = rN + rN2;
    if (eq == 0 || eq == 1) { S flN = rN * u, flN2 = rN2 * u; FirstOrder closure_level; Q Tq = T.v; Q K = Keq(Tq);
      Q kfN = par(p, "Cf1_N") * pow(Tq, par(p, "etaf1_N")) * exp(-par(p, "Ea_N") / par(p, "R") / Tq); Q kfN2 = par(p, "Cf1_N2") * pow(Tq, par(p, "etaf1_N2")) * exp(-par(p, "Ea_N2") / par(p, "R") / Tq);
      Q M = par(p, "M_N"); Q cN = rN.v / M, cN2 = rN2.v / (Q(2) * M); Q kf = kfN * cN + kfN2 * cN2; Q Rf = kf * cN2, Rb = kf * cN * cN / K; Q wN = Q(2) * M * (Rf - Rb);
      if (eq == 0) return flN.d[0] - wN; return flN2.d[0] + wN; }
    S pr = (rN + rN2 / S(2)) * g("R_N") * T;
    if (eq == 2) { S fl = rho * u * u + pr; return fl.d[0]; }
    if (eq == 4) { S fl = rho * u; return fl.d[0]; }   // total mass flux divergence (closure check)
    S Evib = g("R_N2") * g("theta_v_N2") / (exp(g("theta_v_N2") / T) - S(1));
    S eN = S(Q(3)) / S(Q(2)) * g("R_N") * T + g("h0_N"); S eN2 = S(Q(5)) / S(Q(2)) * g("R_N") / S(2) * T + Evib + g("h0_N2");
    S rhoE = rN * eN + rN2 * eN2 + rho * u * u / S(2); S fl = u * (rhoE + pr); return fl.d[0]; }
  static Q field(const PM &p, const Q *pt, int which) { return fld<Q>(p, pt[0])[which]; }
};

// ------------------------------------------------------------------ Sod: exact Riemann solver in binary128
struct SodExact { typedef __float128 F;
  F g, pl = 1, pr = 0.125Q, rl = 1, rr = 0.125Q  /* the left/right states sod.cpp defines */, cl, cr, pm, um, rml, rmr, vs, vt;
  F fK(F p, F pk, F rk, F ck) const { if (p > pk) { F A = 2 / ((g + 1) * rk), B = (g - 1) / (g + 1) * pk; return (p - pk) * sqrtq(A / (p + B)); } return 2 * ck / (g - 1) * (powq(p / pk, (g - 1) / (2 * g)) - 1); }
  void solve(F gam) { g = gam; cl = sqrtq(g * pl / rl); cr = sqrtq(g * pr / rr); F a = pr, b = pl; for (int i = 0; i < 200; i++) { F m = (a + b) / 2; F f = fK(m, pl, rl, cl) + fK(m, pr, rr, cr); if (f > 0) b = m; else a = m; } pm = (a + b) / 2;
    um = (fK(pm, pr, rr, cr) - fK(pm, pl, rl, cl)) / 2; rml = rl * powq(pm / pl, 1 / g); F mu2 = (g - 1) / (g + 1); rmr = rr * (pm / pr + mu2) / (mu2 * pm / pr + 1); vs = cr * sqrtq((g + 1) / (2 * g) * pm / pr + (g - 1) / (2 * g)); vt = um - cl * powq(pm / pl, (g - 1) / (2 * g)); }
  // region: 0 left, 1 fan, 2 left star, 3 right star, 4 right
  int at(F x, F t, F &rho, F &u, F &p) const { F xi = x / t; if (xi <= -cl) { rho = rl; u = 0; p = pl; return 0; } else if (xi <= vt) { u = 2 / (g + 1) * (cl + xi); F c = cl - (g - 1) / 2 * u; rho = rl * powq(c / cl, 2 / (g - 1)); p = pl * powq(rho / rl, g); return 1; } else if (xi <= um) { rho = rml; u = um; p = pm; return 2; } else if (xi <= vs) { rho = rmr; u = um; p = pm; return 3; } else { rho = rr; u = 0; p = pr; return 4; } }
};
