// C13 (solution-name resolution) and C14 (catalogue integrity).  Built against the exception-enabled library.
//   names --prop C13|C14 --seed N --cases M --out stats.json --faildir DIR     |   names --replay FILE
#include <rapidcheck.h>
#include "names.hpp"
#include <sys/wait.h>
#include <unistd.h>
#include <sys/stat.h>

int main(int argc, char **argv) {
  if (!freopen("/dev/null", "w", stdout)) {}
  std::vector<std::string> cat = read_catalogue(false), catl = read_catalogue(true);
  if (const char *rf = arg_value(argc, argv, "--replay")) { std::ifstream f(rf, std::ios::binary); std::stringstream ss; ss << f.rdbuf(); C13Case c; if (!c13_parse(ss.str(), c)) { fprintf(stderr, "not a c13 case\n"); return 2; } std::map<std::string, long> cls; std::string r = c13_case(cat, c.handle, c.s, c.prec, cls); fprintf(stderr, "  masa_init('%s', \"%s\") [%s]: %s\nREPLAY %s\n", show(c.handle).c_str(), show(c.s).c_str(), c.prec ? "long double" : "double", r.empty() ? "as specified" : r.c_str(), r.empty() ? "pass" : "violation"); return r.empty() ? 0 : 1; }
  std::string prop = arg_value(argc, argv, "--prop", "C13"); uint64_t seed = strtoull(arg_value(argc, argv, "--seed", "1"), 0, 10); int cases = atoi(arg_value(argc, argv, "--cases", "100")); std::string faildir = arg_value(argc, argv, "--faildir", "."); stats().path = arg_value(argc, argv, "--out", ""); mkdir(faildir.c_str(), 0755); Stats &st = stats();
  int failures = 0; long budget = -1;
  if (prop == "C13") {
    rc::detail::TestParams tp; tp.seed = mix64(seed ^ 0xc13); tp.maxSuccess = cases; tp.maxSize = 100; rc::detail::TestMetadata md; md.id = "C13:names"; md.description = md.id;
    auto fn = [&]() { if (budget == 0) return; if (budget > 0) budget--;
      auto ent = *rc::gen::container<std::vector<uint64_t>>(160, rc::gen::resize(rc::kNominalSize, rc::gen::arbitrary<uint64_t>())); Draw d(ent);
      C13Case c; c.prec = d.range(0, 1); c.handle = HANDLES[d.range(0, NHANDLES - 1)]; std::string base = cat[d.range(0, (int)cat.size() - 1)]; int mode = d.range(0, 10); std::string s; std::string label;
      if (mode <= 4) { label = "decorated"; // case flips + runs of 0..3 separators at every gap, including before the first and after the last character
        int maxrun = 0; bool lead = false, trail = false; auto run = [&](bool force) { int n = d.coin(0.25) || force ? d.range(1, 3) : 0; std::string r; for (int i = 0; i < n; i++) r += d.coin(0.5) ? '-' : ' '; if (n > maxrun) maxrun = n; return r; };
        std::string r0 = run(mode == 1); lead = !r0.empty(); s = r0; for (size_t i = 0; i < base.size(); i++) { char ch = base[i]; if (d.coin(0.3) && ch >= 'a' && ch <= 'z') ch = char(ch - 32); s += ch; std::string r = run(mode == 2 && i + 1 == base.size()); if (i + 1 == base.size()) trail = !r.empty(); s += r; }
        if (maxrun >= 2) st.count("class:run_of>=2_adjacent_separators"); if (lead) st.count("class:leading_separator"); if (trail) st.count("class:trailing_separator");
        if (s != base && (maxrun >= 2 || lead || trail)) { st.count("class:nontrivial"); Hasher h; h.str(s); h.str(c.handle); h.i64(c.prec); st.distinct.insert(h.h); } }
      else if (mode == 5) { label = "one character deleted/replaced/transposed"; s = base; int k = d.range(0, (int)s.size() - 1); int m = d.range(0, 2); if (m == 0) s.erase(k, 1); else if (m == 1) s[k] = s[k] == 'q' ? 'z' : 'q'; else if (k + 1 < (int)s.size() && s[k] != s[k + 1]) std::swap(s[k], s[k + 1]); else s += "1"; st.count("class:nontrivial"); Hasher h; h.str(s); st.distinct.insert(h.h); }
      else if (mode == 6) { label = "underscore removed or other separator inserted"; s = base; if (d.coin(0.5) && s.find('_') != std::string::npos) s.erase(s.find('_'), 1); else { const char other[] = {'\t', '.', '_', '\n', '+', '/'}; s.insert(d.range(0, (int)s.size()), 1, other[d.range(0, 5)]); } st.count("class:nontrivial"); Hasher h; h.str(s); st.distinct.insert(h.h); }
      else if (mode == 7) { label = "random printable string"; int n = d.range(0, 24); for (int i = 0; i < n; i++) s += char(d.range(32, 126)); }
      else if (mode == 8) { label = "prefix / extension of a name"; s = d.coin(0.5) ? base.substr(0, d.range(0, (int)base.size() - 1)) : base + base.substr(0, d.range(1, 3)); }
      else if (mode == 10) { label = "name followed by NUL and more"; s = base; s += '\0'; int n = d.range(0, 3); for (int i = 0; i < n; i++) s += char(d.range(32, 126)); st.count("class:nontrivial"); Hasher h; h.str(s); st.distinct.insert(h.h); }
      else { label = "raw bytes"; int n = d.range(0, 12); for (int i = 0; i < n; i++) s += char(d.range(0, 255)); }
      c.s = s; st.count("cases"); st.count("evaluations"); st.count("class:input=" + label); write_file(faildir + "/current.case", c13_text(c));
      std::map<std::string, long> cls; std::string r = c13_case(cat, c.handle, c.s, c.prec, cls); for (auto &kv : cls) st.count("class:" + kv.first, kv.second);
      if (st.samples.size() < st.max_samples && st.counters["cases"] % 53 == 1) st.sample("{\"handle\":\"" + jesc(c.handle) + "\",\"name\":\"" + jesc(show(c.s)) + "\",\"kind\":\"" + label + "\",\"normal_form\":\"" + jesc(show(norm(c.s))) + "\",\"in_catalogue\":" + (std::find(cat.begin(), cat.end(), norm(c.s)) != cat.end() ? "true" : "false") + "}");
      if (!r.empty()) { write_file(faildir + "/fail_C13.case", c13_text(c)); write_file(faildir + "/fail_C13.txt", r); if (budget < 0) budget = 400; RC_FAIL(r); } };
    auto result = rc::detail::checkTestable(fn, md, tp);
    if (!result.template is<rc::detail::SuccessResult>()) { failures++; std::ifstream t(faildir + "/fail_C13.txt"); std::stringstream note; note << t.rdbuf(); st.findings.push_back("{\"violation\":true,\"sub\":\"" + jesc(note.str().substr(0, 400)) + "\",\"file\":\"" + jesc(faildir + "/fail_C13.case") + "\"}"); }
  } else {   // ------------------------------------------------------------------------------------------------ C14
    auto violation = [&](const std::string &what) { failures++; std::string f = faildir + "/fail_C14_" + std::to_string(failures) + ".txt"; write_file(f, what + "\n"); st.findings.push_back("{\"violation\":true,\"sub\":\"" + jesc(what) + "\",\"file\":\"" + jesc(f) + "\"}"); };
    // exhaustive part: the enumeration of the catalogue
    st.count("catalogue_entries", (long long)cat.size());
    if (cat != catl) violation("masa_printid<double> and masa_printid<long double> list different catalogues");
    { std::set<std::string> seen; for (auto &n : cat) { if (!seen.insert(n).second) violation("catalogue name listed twice: " + n); if (norm(n) != n) violation("catalogue name is not its own normal form: " + n); } }
    const CapSpec &cs = capspec(); if (!cs.provides.count("euler_1d")) violation("capability table is empty");
    for (auto &n : cat) if (!cs.provides.count(n)) violation("catalogue entry " + n + " is not in spec/capabilities.json (new solution: extend the spec)");
    for (int prec = 0; prec < 2; prec++) for (auto &n : cat) { st.count("evaluations"); st.count("class:enumerated_entry");
      bool threw = false; { Quiet q; masa_verif_reset(); try { if (prec) masa_init<long double>("entry", n); else masa_init<double>("entry", n); } catch (int) { threw = true; } } if (threw) { violation("masa_init(h, \"" + n + "\") is a fatal error for a name printed by masa_printid"); continue; }
      std::string nm; { Quiet q; if (prec) masa_get_name<long double>(&nm); else masa_get_name<double>(&nm); } if (nm != n) violation("masa_get_name returns '" + nm + "' after masa_init of " + n);
      if (n == "masa_test_function" || n == "masa_uninit") continue;
      int sc = -1, ip = -1, dim = -1; try { Quiet q; if (prec) { sc = masa_sanity_check<long double>(); ip = masa_init_param<long double>(); masa_get_dimension<long double>(&dim); } else { sc = masa_sanity_check<double>(); ip = masa_init_param<double>(); masa_get_dimension<double>(&dim); } } catch (int) { violation(n + ": sanity_check/init_param raised the fatal error right after masa_init"); continue; }
      if (sc != 0) violation(n + ": masa_sanity_check returns " + std::to_string(sc) + " right after masa_init"); if (ip != 0) violation(n + ": masa_init_param returns " + std::to_string(ip));
      auto di = cs.dimension.find(n); if (di != cs.dimension.end() && dim != di->second) violation(n + ": masa_get_dimension returns " + std::to_string(dim) + ", its evaluators take " + std::to_string(di->second) + " spatial coordinates"); }
    // the catalogue in ONE registry: every entry is initialised under a handle spelled like its own name (the idiom of the library's tests), then
    // a second handle ("recheck") is initialised with each entry in turn, the first handle is selected back and must still be that solution.
    // Runs in a forked child: a registry that frees a live instance is reported as a violation, not as a dead worker.
    for (int prec = 0; prec < 2; prec++) { int pfd[2]; if (pipe(pfd) != 0) break; fflush(stdout); fflush(stderr); pid_t pid = fork();
      if (pid == 0) { close(pfd[0]); alarm(300); std::string rep; auto say = [&](const std::string &m) { rep += m + "\n"; };
        try { { Quiet q; masa_verif_reset(); for (auto &n : cat) { if (prec) masa_init<long double>(n, n); else masa_init<double>(n, n); } }
          for (auto &n : cat) { std::string nm; int sc = -1, dim = -1; { Quiet q; if (prec) { masa_init<long double>("recheck", n); masa_select_mms<long double>(n); masa_get_name<long double>(&nm); sc = masa_sanity_check<long double>(); masa_get_dimension<long double>(&dim); } else { masa_init<double>("recheck", n); masa_select_mms<double>(n); masa_get_name<double>(&nm); sc = masa_sanity_check<double>(); masa_get_dimension<double>(&dim); } }
            if (nm != n) say("catalogue walk: after masa_init('recheck','" + n + "') the handle '" + n + "' reports the solution name '" + show(nm) + "'");
            bool fixture = n == "masa_test_function" || n == "masa_uninit"; if (!fixture && sc != 0) say("catalogue walk: masa_sanity_check returns " + std::to_string(sc) + " on handle '" + n + "' after another handle was initialised with the same solution");
            auto di = cs.dimension.find(n); if (!fixture && di != cs.dimension.end() && dim != di->second) say("catalogue walk: masa_get_dimension returns " + std::to_string(dim) + " on handle '" + n + "'"); }
          { Quiet q; masa_verif_reset(); } } catch (int e) { say("catalogue walk: fatal error " + std::to_string(e) + " raised by a legal call"); }
        size_t off = 0; while (off < rep.size()) { ssize_t w = write(pfd[1], rep.data() + off, rep.size() - off); if (w <= 0) break; off += (size_t)w; } close(pfd[1]); _exit(0); }
      close(pfd[1]); std::string in; char buf[4096]; ssize_t k; while ((k = read(pfd[0], buf, sizeof buf)) > 0) in.append(buf, k); close(pfd[0]); int stt = 0; waitpid(pid, &stt, 0);
      st.count("evaluations", (long long)cat.size()); st.count("class:catalogue_walk_entry", (long long)cat.size());
      if (WIFSIGNALED(stt)) violation(std::string("catalogue walk (") + (prec ? "long double" : "double") + "): every entry initialised under a handle spelled like its name, then a second handle per entry: the library ended the process with signal " + std::to_string(WTERMSIG(stt)));
      else if (WIFEXITED(stt) && WEXITSTATUS(stt) != 0) violation("catalogue walk: the library ended the process with exit status " + std::to_string(WEXITSTATUS(stt)));
      std::istringstream ss(in); std::string l; int shown = 0; while (std::getline(ss, l)) if (!l.empty() && shown++ < 5) violation(l); }
    // generated part: every provided evaluator at random interior points with default parameters
    rc::detail::TestParams tp; tp.seed = mix64(seed ^ 0xc14); tp.maxSuccess = cases; tp.maxSize = 100; rc::detail::TestMetadata md; md.id = "C14:interior-points"; md.description = md.id;
    auto fn = [&]() { if (budget == 0) return; if (budget > 0) budget--;
      auto ent = *rc::gen::container<std::vector<uint64_t>>(8, rc::gen::resize(rc::kNominalSize, rc::gen::arbitrary<uint64_t>())); Draw d(ent);
      int prec = d.range(0, 1); std::string n = cat[d.range(0, (int)cat.size() - 1)]; if (n == "masa_test_function" || n == "masa_uninit") return; long double pt[4]; for (int i = 0; i < 4; i++) pt[i] = d.U(0.05L, 0.95L); int idx = d.range(1, 3);
      { Quiet q; masa_verif_reset(); if (prec) masa_init<long double>("entry", n); else masa_init<double>("entry", n); } st.count("cases"); st.count("class:solution=" + n);
      auto pit = cs.provides.find(n); if (pit == cs.provides.end()) return; History H; std::string bad;
      auto one = [&](auto tag) { typedef decltype(tag) Scalar; const auto &T = api_table<Scalar>(); Scalar a[4]; for (int i = 0; i < 4; i++) a[i] = (Scalar)pt[i];
        for (size_t i = 0; i < T.size(); i++) { if (!pit->second.count(T[i].id)) continue; int ii = idx; std::string sg = T[i].sig; int dimn = (int)std::count(sg.begin(), sg.end(), 'S'); if (n == "navierstokes_4d_compressible_powerlaw") dimn = 3; if (sg.find('I') != std::string::npos && std::string(T[i].name).find("grad") != std::string::npos) ii = 1 + (idx - 1) % std::max(1, dimn); if (std::string(T[i].name) == "masa_eval_central_moment") ii = idx * 2;
          auto r = H.do_eval<Scalar>((int)i, a, ii); st.count("evaluations"); if (r.threw) bad = std::string(T[i].id) + " raised the fatal error"; else if (!std::isfinite(r.v)) bad = std::string(T[i].id) + " returned a non-finite value " + decld(r.v); else if ((Scalar)r.v == (Scalar)-1.33) bad = std::string(T[i].id) + " returned the 'not implemented' sentinel although the solution declares it";
          if (!bad.empty()) { char b[160]; snprintf(b, sizeof b, " [%s, %s, point (%Lg,%Lg,%Lg,%Lg), index %d, default parameters]", n.c_str(), prec ? "long double" : "double", pt[0], pt[1], pt[2], pt[3], ii); bad += b; return; } } };
      if (prec) one((long double)0); else one((double)0);
      { Hasher h; h.str(n); h.i64(prec); for (int i = 0; i < 4; i++) h.ld(pt[i]); st.distinct.insert(h.h); st.count("class:nontrivial"); }
      if (st.samples.size() < st.max_samples && st.counters["cases"] % 41 == 1) { char b[200]; snprintf(b, sizeof b, "{\"solution\":\"%s\",\"scalar\":\"%s\",\"point\":[%Lg,%Lg,%Lg,%Lg],\"evaluators_checked\":%zu}", n.c_str(), prec ? "long double" : "double", pt[0], pt[1], pt[2], pt[3], pit->second.size()); st.sample(b); }
      if (!bad.empty()) { write_file(faildir + "/fail_C14_points.txt", bad); if (budget < 0) budget = 200; RC_FAIL(bad); } };
    auto result = rc::detail::checkTestable(fn, md, tp);
    if (!result.template is<rc::detail::SuccessResult>()) { std::ifstream t(faildir + "/fail_C14_points.txt"); std::stringstream note; note << t.rdbuf(); violation(note.str()); }
  }
  st.flush(); return failures ? 1 : 0;
}
