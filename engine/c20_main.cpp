// C20: specialising parameters maps one catalogue solution onto another (metamorphic; two handles in one process).
//   c20 --seed N --cases M --out stats.json --faildir DIR       |   c20 --replay FILE
#include <rapidcheck.h>
#include "specs.hpp"
#include "cmirror.hpp"
#include <cfenv>
#include <cerrno>
#include <masa.h>
#include <sys/stat.h>
using namespace MASA;
namespace MASA { void masa_verif_reset(); }

struct Pair {
  std::string name, rich, simple;
  std::vector<std::string> zero;                                   // parameters of the richer solution set to zero
  std::vector<std::pair<std::string, std::string>> labels;         // (evaluator of rich, evaluator of simple)
  int extra_args;                                                  // trailing arguments of the richer solution not shared (z and/or t)
};

static std::vector<Pair> pairs() {
  std::vector<Pair> P;
  auto S5 = [](bool three) { std::vector<std::pair<std::string, std::string>> l = {{"source_rho", "source_rho"}, {"source_rho_u", "source_rho_u"}, {"source_rho_v", "source_rho_v"}, {"source_rho_e", "source_rho_e"}}; if (three) l.push_back({"source_rho_w", "source_rho_w"}); return l; };
  std::vector<std::string> z3 = {"u_z", "v_z", "w_0", "w_x", "w_y", "w_z", "rho_z", "p_z"};
  P.push_back({"euler_3d->euler_2d", "euler_3d", "euler_2d", z3, S5(false), 1});
  P.push_back({"navierstokes_3d->navierstokes_2d", "navierstokes_3d_compressible", "navierstokes_2d_compressible", z3, S5(false), 1});
  P.push_back({"navierstokes_2d(mu=k=0)->euler_2d", "navierstokes_2d_compressible", "euler_2d", {"mu", "k"}, S5(false), 0});
  P.push_back({"navierstokes_3d(mu=k=0)->euler_3d", "navierstokes_3d_compressible", "euler_3d", {"mu", "k"}, S5(true), 0});
  P.push_back({"euler_transient_1d->euler_1d", "euler_transient_1d", "euler_1d", {"rho_t", "u_t", "p_t"}, {{"source_rho", "source_rho"}, {"source_rho_u", "source_rho_u"}, {"source_rho_e", "source_rho_e"}}, 1});
  P.push_back({"euler_transient_2d->euler_2d", "euler_transient_2d", "euler_2d", {"rho_t", "u_t", "v_t", "p_t"}, {{"source_rho", "source_rho"}, {"source_u", "source_rho_u"}, {"source_v", "source_rho_v"}, {"source_e", "source_rho_e"}}, 1});
  P.push_back({"euler_transient_3d->euler_3d", "euler_transient_3d", "euler_3d", {"rho_t", "u_t", "v_t", "w_t", "p_t"}, {{"source_rho", "source_rho"}, {"source_u", "source_rho_u"}, {"source_v", "source_rho_v"}, {"source_w", "source_rho_w"}, {"source_e", "source_rho_e"}}, 1});
  P.push_back({"axi_euler_transient->axisymmetric_euler", "axi_euler_transient", "axisymmetric_euler", {"rho_t", "u_t", "w_t", "p_t"}, {{"source_rho", "source_rho"}, {"source_u", "source_rho_u"}, {"source_w", "source_rho_w"}, {"source_e", "source_rho_e"}}, 1});
  for (int d = 1; d <= 3; d++) { std::string D = std::to_string(d);
    P.push_back({"heat_" + D + "d unsteady_const->steady_const", "heateq_" + D + "d_unsteady_const", "heateq_" + D + "d_steady_const", {"A_t", "B_t", "C_t", "D_t"}, {{"source_t", "source_t"}}, 1});
    P.push_back({"heat_" + D + "d unsteady_var->steady_var", "heateq_" + D + "d_unsteady_var", "heateq_" + D + "d_steady_var", {"A_t", "B_t", "C_t", "D_t"}, {{"source_t", "source_t"}}, 1});
    P.push_back({"heat_" + D + "d steady_var->steady_const", "heateq_" + D + "d_steady_var", "heateq_" + D + "d_steady_const", {"k_1", "k_2", "cp_1", "cp_2"}, {{"source_t", "source_t"}}, 0});
    P.push_back({"heat_" + D + "d unsteady_var->unsteady_const", "heateq_" + D + "d_unsteady_var", "heateq_" + D + "d_unsteady_const", {"k_1", "k_2", "cp_1", "cp_2"}, {{"source_t", "source_t"}}, 0}); }
  return P;
}

struct C20Case { int pair; NumCase rich, simple; };
struct Res { std::string label; long double a, b; double err; bool bad; };

static const Ev *find_ev(const Spec &s, const std::string &l) { for (auto &e : s.evals) if (e.label == l) return &e; return nullptr; }

template <class Scalar> static std::vector<Res> run_t(const Pair &P, const C20Case &c, double K) {
  const Spec &R = *find_spec(P.rich), &S = *find_spec(P.simple); std::vector<Res> out; const long double eps = std::numeric_limits<Scalar>::epsilon();
  { Quiet q; masa_verif_reset();
    if (sizeof(Scalar) > 8) { masa_init<double>("decoy-simple", P.simple); masa_init<double>("decoy-rich", P.rich); } else { masa_init<long double>("decoy-simple", P.simple); masa_init<long double>("decoy-rich", P.rich); }   // see numcase.cpp
    // registry pattern of the property ("two handles of one process"): the richer handle is initialised, then the simpler one, then the richer one
    // AGAIN while the simpler one is selected; masa_init must select what it initialises, so the richer parameters are set without a select
    masa_init<Scalar>("rich", P.rich); masa_init<Scalar>("simple", P.simple); masa_init<Scalar>("rich", P.rich);
    for (auto &kv : c.rich.params) masa_set_param<Scalar>(kv.first, (Scalar)kv.second);
    masa_select_mms<Scalar>("simple"); for (auto &kv : c.simple.params) masa_set_param<Scalar>(kv.first, (Scalar)kv.second); }
  PM pr, ps; for (auto &kv : c.rich.params) pr[kv.first] = Q((long double)(Scalar)kv.second); for (auto &kv : c.simple.params) ps[kv.first] = Q((long double)(Scalar)kv.second);
  long double al[4], bl[4]; double ad[4], bd[4]; Q aq[4], bq[4];
  for (int i = 0; i < 4; i++) { al[i] = (long double)(Scalar)c.rich.pt[i]; ad[i] = (double)al[i]; aq[i] = Q(al[i]); bl[i] = (long double)(Scalar)c.simple.pt[i]; bd[i] = (double)bl[i]; bq[i] = Q(bl[i]); }
  // evaluated alternately: rich, simple, rich, simple ...; then every non-zero parameter of both handles is re-set (x 1.0625) through
  // masa_set_param and the comparison is repeated at the same point: a value frozen at the first evaluation shows up reproducibly
  for (int phase = 0; phase < 2; phase++) {
  if (case_hash(c.rich) % 8 == 1) { errno = EDOM; std::feraiseexcept(FE_DIVBYZERO | FE_INVALID | FE_OVERFLOW); }   // stale ambient state (see numcase.cpp)
  if (phase == 1) { Quiet q; masa_select_mms<Scalar>("rich"); for (auto &kv : pr) { Scalar v = (Scalar)((long double)kv.second.v * 1.0625L); masa_set_param<Scalar>(kv.first, v); kv.second = Q((long double)v); }
    masa_select_mms<Scalar>("simple"); for (auto &kv : ps) { Scalar v = (Scalar)((long double)kv.second.v * 1.0625L); masa_set_param<Scalar>(kv.first, v); kv.second = Q((long double)v); } }
  for (auto &lp : P.labels) { const Ev *er = find_ev(R, lp.first), *es = find_ev(S, lp.second); if (!er || !es) continue; Res r; r.label = lp.first + " vs " + lp.second;
    { Quiet q; masa_select_mms<Scalar>("rich"); r.a = sizeof(Scalar) > 8 ? er->ld(al) : (long double)er->d(ad); masa_select_mms<Scalar>("simple"); r.b = sizeof(Scalar) > 8 ? es->ld(bl) : (long double)es->d(bd); }
    Q ma = er->ref(pr, aq), mb = es->ref(ps, bq);           // the AD oracle supplies the SCALE only
    __float128 scale = ma.m + mb.m; __float128 diff = fabsq((__float128)r.a - (__float128)r.b);
    r.err = diff == 0 ? 0 : (scale > 0 ? (double)(diff / scale / (__float128)eps) : 1e300); r.bad = !(r.err <= K) || !std::isfinite(r.a) || !std::isfinite(r.b); if (phase) r.label = "after set_param: " + r.label; out.push_back(r); } 
  // the same sources through the C entry points of the double interface, bit for bit, on both handles
  if (sizeof(Scalar) == 8) for (int side = 0; side < 2; side++) { { Quiet q; masa_select_mms<Scalar>(side ? "simple" : "rich"); }
    for (auto &m : c_mirror(side ? bd : ad, side ? S.nargs : R.nargs, 0, nullptr, &mirror_compared())) { Res r; r.label = std::string(phase ? "after set_param: " : "") + "C-interface: " + m.cname + " on " + (side ? P.simple : P.rich) + " differs from " + m.cxx_id; r.a = m.c; r.b = m.cxx; r.err = 1e300; r.bad = true; out.push_back(r); } } }
  return out;
}
static std::vector<Res> run(const Pair &P, const C20Case &c, double K) { return c.rich.prec ? run_t<long double>(P, c, K) : run_t<double>(P, c, K); }

static C20Case make(const std::vector<Pair> &PP, int pi, int prec, const std::vector<uint64_t> &ent) {
  const Pair &P = PP[pi]; const Spec &R = *find_spec(P.rich), &S = *find_spec(P.simple); C20Case c; c.pair = pi;
  std::vector<uint64_t> e1(ent.begin(), ent.begin() + ent.size() / 2), e2(ent.begin() + ent.size() / 2, ent.end());
  c.simple = make_case(S, prec, e1, true); c.rich = make_case(R, prec, e2, true);
  for (auto &kv : c.simple.params) if (c.rich.params.count(kv.first)) c.rich.params[kv.first] = kv.second;   // shared parameters
  for (auto &z : P.zero) if (c.rich.params.count(z)) c.rich.params[z] = 0;
  // shared coordinates first, the richer solution's extra ones (z, t) keep their own generated values
  int ns = S.nargs; for (int i = 0; i < ns; i++) c.rich.pt[i] = c.simple.pt[i];
  return c;
}
static std::string to_text(const C20Case &c, const std::string &pairname) { return "verif-c20case 1\npair " + std::to_string(c.pair) + " " + pairname + "\n==== rich\n" + case_to_text(c.rich, "C20", "") + "==== simple\n" + case_to_text(c.simple, "C20", ""); }
static bool from_text(const std::string &t, C20Case &c) { auto a = t.find("==== rich\n"), b = t.find("==== simple\n"); if (a == std::string::npos || b == std::string::npos) return false; std::istringstream h(t); std::string k; h >> k >> k >> k >> c.pair; std::string prop; return case_from_text(t.substr(a + 10, b - a - 10), c.rich, prop) && case_from_text(t.substr(b + 12), c.simple, prop); }
static void write_file(const std::string &p, const std::string &t) { std::ofstream f(p); f << t; }

int main(int argc, char **argv) {
  if (!freopen("/dev/null", "w", stdout)) {}
  double K = atof(arg_value(argc, argv, "--K", "64")); auto PP = pairs();
  if (const char *rf = arg_value(argc, argv, "--replay")) { std::ifstream f(rf); std::stringstream ss; ss << f.rdbuf(); C20Case c; if (!from_text(ss.str(), c) || c.pair < 0 || c.pair >= (int)PP.size()) { fprintf(stderr, "not a c20 case\n"); return 2; }
    c.rich.only.clear(); c.simple.only.clear(); bool bad = false; for (auto &r : run(PP[c.pair], c, K)) { fprintf(stderr, "  %-34s %s: rich=%s simple=%s err=%.4g eps*mag %s\n", PP[c.pair].name.c_str(), r.label.c_str(), decld(r.a).c_str(), decld(r.b).c_str(), r.err, r.bad ? "VIOLATION" : "ok"); bad |= r.bad; }
    fprintf(stderr, "REPLAY %s\n", bad ? "violation" : "pass"); return bad ? 1 : 0; }
  uint64_t seed = strtoull(arg_value(argc, argv, "--seed", "1"), 0, 10); int cases = atoi(arg_value(argc, argv, "--cases", "100")); std::string faildir = arg_value(argc, argv, "--faildir", "."); stats().path = arg_value(argc, argv, "--out", ""); mkdir(faildir.c_str(), 0755);
  int failures = 0; Stats &st = stats();
  for (int pi = 0; pi < (int)PP.size(); pi++) for (int prec = 0; prec < 2; prec++) {
    const Pair &P = PP[pi]; std::string sub = P.name + (prec ? "/ld" : "/d"); std::string slug = sub; for (auto &ch : slug) if (!isalnum((unsigned char)ch)) ch = '_';
    long budget = -1; size_t nent = 2 * (4 * 60 + 64);
    rc::detail::TestParams tp; tp.seed = mix64(seed ^ mix64(std::hash<std::string>()(sub))); tp.maxSuccess = cases; tp.maxSize = 100; rc::detail::TestMetadata md; md.id = "C20:" + sub; md.description = md.id;
    auto fn = [&]() { if (budget == 0) return; if (budget > 0) budget--;
      auto ent = *rc::gen::container<std::vector<uint64_t>>(nent, rc::gen::resize(rc::kNominalSize, rc::gen::arbitrary<uint64_t>()));
      C20Case c = make(PP, pi, prec, ent); write_file(faildir + "/current.case", to_text(c, P.name));
      st.count("cases"); st.count("class:pair=" + P.name); st.count(std::string("class:scalar=") + (prec ? "long double" : "double"));
      if (nontrivial(c.simple)) { st.count("class:nontrivial"); Hasher h; h.i64(pi); h.i64((int64_t)case_hash(c.simple)); h.i64((int64_t)case_hash(c.rich)); st.distinct.insert(h.h); }
      auto res = run(P, c, K); bool bad = false; std::string detail;
      for (auto &r : res) { st.count("evaluations"); if (!r.bad) st.maxi(std::string("max_err_eps_mag:") + (prec ? "ld" : "d"), r.err); st.maxi("max_err:" + P.name + (prec ? "/ld" : "/d"), r.err < 1e299 ? r.err : 1e299); if (r.bad) { bad = true; detail += r.label + " rich=" + decld(r.a) + " simple=" + decld(r.b) + " err=" + std::to_string(r.err) + "; "; } }
      if (st.samples.size() < st.max_samples && st.counters["cases"] % 211 == 1) { std::string j = "{\"pair\":\"" + jesc(P.name) + "\",\"rich\":" + case_to_json(c.rich) + ",\"simple\":" + case_to_json(c.simple) + ",\"comparisons\":["; bool f = true; for (auto &r : res) { j += std::string(f ? "" : ",") + "{\"sources\":\"" + jesc(r.label) + "\",\"rich\":\"" + decld(r.a) + "\",\"simple\":\"" + decld(r.b) + "\",\"err_in_eps_mag\":" + std::to_string(r.err) + "}"; f = false; } st.sample(j + "]}"); }
      if (bad) { write_file(faildir + "/fail_" + slug + ".case", to_text(c, P.name)); write_file(faildir + "/fail_" + slug + ".txt", detail); if (budget < 0) budget = 300; RC_FAIL("reduction violated: " + sub + " " + detail); } };
    auto result = rc::detail::checkTestable(fn, md, tp);
    if (!result.template is<rc::detail::SuccessResult>()) { failures++; std::ostringstream msg; rc::detail::printResultMessage(result, msg); st.findings.push_back("{\"violation\":true,\"sub\":\"" + jesc(sub) + "\",\"file\":\"" + jesc(faildir + "/fail_" + slug + ".case") + "\",\"rapidcheck\":\"" + jesc(msg.str().substr(0, 500)) + "\"}"); }
    st.flush(); }
  st.flush(); return failures ? 1 : 0;
}
