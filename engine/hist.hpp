// Model-based interpreter of API histories, shared by the rapidcheck drivers (C10-C12, C15-C17), the libFuzzer
// target and the Valgrind replay tier (C19).  A history is a vector of raw integer records; every record is decoded
// against the CURRENT model state (handle slots, parameter indices modulo what exists), so every generated, shrunk or
// fuzzed history is a valid one.  After every step the library is compared with a reference model:
//   registry  : per precision  handle -> (solution name, scalar parameters, vector parameters), selected handle
//   defaults  : per solution name, learned at its first initialisation and required to be identical ever after
// Failures carry the id of the property they contradict; a driver reports only its own.
#pragma once
#include "util.hpp"
#include "api_gen.hpp"
#include <masa.h>
#include <functional>
#include <algorithm>
#include <sys/wait.h>
#include <unistd.h>
namespace MASA { void masa_verif_reset(); }

// ------------------------------------------------------------------ specification data (generated from spec/capabilities.json)
struct CapSpec { std::map<std::string, std::set<std::string>> provides; std::map<std::string, std::set<std::string>> unspecified; std::map<std::string, int> dimension; };
const CapSpec &capspec();                               // defined in capspec_gen.cpp

struct Op { int code = 0, prec = 0, h = 0, s = 0, p = 0, api = 0, idx = 0, n = 0; uint64_t v[4] = {0, 0, 0, 0}; };
enum OpCode { OP_INIT, OP_SELECT, OP_SET, OP_GET, OP_INITP, OP_PURGE, OP_SANITY, OP_DISPLAY, OP_SETVEC, OP_GETVEC, OP_DISPVEC, OP_EVAL, OP_LIST, OP_GETNAME, OP_GETDIM, OP_AUDIT, OP_PRINTID,
              OP_CINIT, OP_CSELECT, OP_CSET, OP_CGET, OP_CINITP, OP_CPURGE, OP_CSANITY, OP_CDISPLAY, OP_CSETARR, OP_CGETARR, OP_CEVAL, OP_CLIST, OP_CGETNAME, OP_CGETDIM, OP_CDISPARR,
              OP_FATAL, OP_COUNT };
static const char *const OP_NAMES[] = {"init", "select", "set_param", "get_param", "init_param", "purge", "sanity", "display_param", "set_vec", "get_vec", "display_vec", "eval", "list_mms", "get_name", "get_dimension", "audit", "printid",
                                       "c:init", "c:select", "c:set_param", "c:get_param", "c:init_param", "c:purge", "c:sanity", "c:display_param", "c:set_array", "c:get_array", "c:eval", "c:list_mms", "c:get_name", "c:get_dimension", "c:display_array",
                                       "fatal-misuse"};

inline std::string op_to_text(const Op &o) { char b[256]; snprintf(b, sizeof b, "op %d %d %d %d %d %d %d %d %llu %llu %llu %llu", o.code, o.prec, o.h, o.s, o.p, o.api, o.idx, o.n, (unsigned long long)o.v[0], (unsigned long long)o.v[1], (unsigned long long)o.v[2], (unsigned long long)o.v[3]); return b; }
inline bool op_from_text(const std::string &l, Op &o) { unsigned long long a, b, c, d; return sscanf(l.c_str(), "op %d %d %d %d %d %d %d %d %llu %llu %llu %llu", &o.code, &o.prec, &o.h, &o.s, &o.p, &o.api, &o.idx, &o.n, &a, &b, &c, &d) == 12 && ((o.v[0] = a), (o.v[1] = b), (o.v[2] = c), (o.v[3] = d), true); }

// handle strings are used verbatim by the library: empty, blanks, case twins, a 300-character one, one that contains the " : " separator
// of masa_list_mms and a newline-free control character; the last slot is reserved for the fresh-handle oracle
static const std::string LONG_HANDLE(300, 'h');
static const char *const HANDLES[] = {"a", "b", "", "Euler 1-D", "x y", "a ", "A", LONG_HANDLE.c_str(), "left : right", "tab\there", "fresh-copy"};
static const int NHANDLES = 10;
static const int FRESH_SLOT = 10;

// spelling of a solution name in masa_init: one call in four decorates it the way the library documents as equivalent (case changes, runs of '-' and ' '
// in front, inside and at the end); the bits come from the op record, so the history stays a pure function of its records
inline std::string spell_name(const std::string &s, const Op &o) {
  if ((unsigned)o.n % 4 != 1) return s;
  uint64_t r = o.v[0] ^ ((uint64_t)(unsigned)o.idx << 32) ^ 0x9e3779b97f4a7c15ull; auto next = [&r]() { r ^= r << 13; r ^= r >> 7; r ^= r << 17; return r; };
  std::string out; auto run = [&]() { int k = 1 + next() % 3; for (int i = 0; i < k; i++) out += (next() & 1) ? '-' : ' '; };
  if (next() % 3 == 0) run();
  for (size_t i = 0; i < s.size(); i++) { char c = s[i]; if (next() % 3 == 0) c = (char)toupper((unsigned char)c); out += c; if (i + 1 < s.size() && next() % 8 == 0) run(); }
  if (next() % 2 == 0) run();
  return out; }

// an unknown parameter/vector name derived from a valid one: what a caller gets wrong in practice (padding blanks from a fixed-length buffer,
// a leading blank, another case, a tab, a truncated name). Names are exact keys: none of these may reach the parameter.
inline std::string near_name(const std::string &valid, const Op &o) { std::string b;
  switch ((unsigned)o.idx % 6) { case 0: b = valid + " "; break; case 1: b = " " + valid; break; case 2: b = valid + "   "; break;
    case 3: b = valid; for (auto &ch : b) ch = (char)toupper((unsigned char)ch); if (b == valid) for (auto &ch : b) ch = (char)tolower((unsigned char)ch); if (b == valid) b += " "; break;
    case 4: b = valid + "\t"; break; default: b = valid.size() > 1 ? valid.substr(0, valid.size() - 1) : valid + "_"; break; }
  return b; }

struct Failure { std::string prop, msg; int step; };

template <class Scalar> inline bool biteq(Scalar a, Scalar b) { return memcmp(&a, &b, sizeof(Scalar) > 8 ? 10 : 8) == 0; }
inline const long double MARKER_LD = -12345.67;    // MASA_VAR_DEFAULT is assigned from this double literal in both instantiations

// decode 64 bits of entropy into a finite value of diverse magnitude; values close to, but different from, the
// "uninitialised" marker are never produced (the library compares with a 1e-10 relative window)
template <class Scalar> Scalar decode_value(uint64_t r) {
  int kind = r % 11; long double u = (long double)(r >> 8) * 0x1p-56L; Scalar v;
  switch (kind) {
    case 0: v = (Scalar)(long long)((r >> 8) % 21) - 10; break;
    case 1: v = (Scalar)(-10 + 20 * u); break;
    case 2: v = (Scalar)(1e300L * (0.5L + u)); break;
    case 3: v = (Scalar)(-1e-300L * (0.5L + u)); break;
    case 4: v = std::numeric_limits<Scalar>::denorm_min() * (Scalar)(1 + (r >> 8) % 1000); break;
    case 5: v = (r & 0x100) ? (Scalar)0.0 : -(Scalar)0.0; break;
    case 6: v = (r & 0x200) ? (Scalar)12345.67 : (Scalar)-12345.67; break;   // exactly the marker, or its mirror image (an ordinary value)
    case 7: v = (Scalar)-1.33; break;                           // the unimplemented-evaluator sentinel is an ordinary value for a parameter
    case 8: v = (Scalar)-20; break;                             // so is the unknown-name return value
    case 9: v = (Scalar)(0.5L + 2.5L * u); break;
    default: v = (Scalar)(expl(-20 + 40 * u) * ((r & 0x100) ? 1 : -1)); break; }
  long double d = fabsl((long double)v - MARKER_LD); if (d != 0 && d < 13) v = (Scalar)1.5;
  return v;
}
// evaluator arguments: moderate values (interior-ish), occasionally extreme
template <class Scalar> Scalar decode_arg(uint64_t r) { long double u = (long double)(r >> 8) * 0x1p-56L; int k = r % 8; if (k == 0) return (Scalar)0; if (k == 1) return (Scalar)(-3 + 6 * u); if (k == 2) return (Scalar)(1e6L * u); return (Scalar)(0.05L + 1.9L * u); }

struct SolModel { std::string name; std::vector<std::pair<std::string, long double>> params; std::map<std::string, std::vector<long double>> vecs; bool valid = false; };
struct Registry { std::map<std::string, SolModel> handles; std::string selected; bool has_selected = false; };

struct HistConfig {
  std::vector<std::string> catalogue;          // names initialisable in this run (fixtures excluded unless wanted)
  bool check_fresh = true;                     // fresh-handle oracle on evaluations (C10, C11)
  bool audit_every_step = false;               // compare every parameter of every handle after every step (C12/C16 thoroughness)
  bool c_interface = true;
  std::string stop_on;                         // "" = stop at the first failure of any property
  std::string escape_prop;                     // property blamed when a fatal error escapes from a call that is legal in the model
  int fatal_mode = 0;                          // C16: 0 = exception build, catch int in-process; 1 = exit() build, observe a forked child
};

struct History {
  HistConfig cfg; Registry reg[2]; std::map<std::string, SolModel> defaults[2]; std::vector<Failure> fails; int step = 0;
  std::map<std::string, long> cls;             // classification counters of this history
  std::vector<std::string> trace;              // decoded operations (for samples and replay output)
  long evals = 0;
  struct LastEval { bool valid = false; int api = 0, idx = 0; long double args[4] = {0, 0, 0, 0}; } last_eval[2];

  void fail(const std::string &prop, const std::string &msg) { fails.push_back({prop, msg, step}); }
  // handle of an init operation: ten fixed strings, plus two slots that produce a handle spelled exactly like a catalogue name (the idiom of the
  // library's own tests, masa_init("euler_1d","euler_1d")): slot 10 names the handle after the solution of this call; slot 11 looks for a live
  // handle that is spelled like its own solution and initialises ANOTHER handle with that same solution (s is redirected), else behaves like slot 10
  template <class RegT> std::string init_handle(const Op &o, std::string &s, const RegT &R) { unsigned k = (unsigned)o.h % (NHANDLES + 2);
    // one init in eight uses a family of look-alike handles: equal as numbers but not as strings, equal once blanks are dropped, ordered differently as numbers and as strings
    static const char *const twins[] = {"run1", "run01", "run 1", "h2", "h10", "h 2"}; if ((unsigned)o.p % 8 == 7) { cls["init_look_alike_handle"]++; return twins[((unsigned)o.idx / 2) % 6]; } if (k < (unsigned)NHANDLES) return HANDLES[k];
    if (k == (unsigned)NHANDLES + 1) for (auto &kv : R.handles) if (kv.first == kv.second.name && std::find(cfg.catalogue.begin(), cfg.catalogue.end(), kv.first) != cfg.catalogue.end()) { s = kv.first; cls["init_other_handle_with_solution_of_name_like_handle"]++; return HANDLES[(unsigned)o.idx % NHANDLES]; }
    cls["init_handle_spelled_like_solution"]++; return s; }

  bool failed() const { return !fails.empty(); }

  // ---------------------------------------------------------------- library access helpers (selected solution of precision P)
  template <class Scalar> std::vector<std::string> lib_param_names() { Quiet q; MASA::masa_display_param<Scalar>(); std::vector<std::string> out; std::string line; std::stringstream ss(q.str()); while (std::getline(ss, line)) { auto p = line.find(" is set to:"); if (p != std::string::npos) out.push_back(line.substr(0, p)); } return out; }
  template <class Scalar> std::vector<std::string> lib_vec_names() { Quiet q; MASA::masa_display_vec<Scalar>(); std::vector<std::string> out; std::string line; std::stringstream ss(q.str()); while (std::getline(ss, line)) { auto p = line.find(" is size:"); if (p != std::string::npos) out.push_back(line.substr(0, p)); } return out; }
  template <class Scalar> SolModel snapshot_selected(const std::string &solname) { SolModel m; m.name = solname; m.valid = true;
    for (auto &n : lib_param_names<Scalar>()) { Quiet q; m.params.push_back({n, (long double)MASA::masa_get_param<Scalar>(n)}); }
    for (auto &n : lib_vec_names<Scalar>()) { Quiet q; std::vector<Scalar> v; MASA::masa_get_vec<Scalar>(n, v); std::vector<long double> w(v.begin(), v.end()); m.vecs[n] = w; }
    return m; }
  template <class Scalar> bool same(const SolModel &a, const SolModel &b, std::string &why) {
    if (a.params.size() != b.params.size()) { why = "number of scalar parameters " + std::to_string(a.params.size()) + " vs " + std::to_string(b.params.size()); return false; }
    for (size_t i = 0; i < a.params.size(); i++) { if (a.params[i].first != b.params[i].first) { why = "parameter name " + a.params[i].first + " vs " + b.params[i].first; return false; }
      if (!biteq<Scalar>((Scalar)a.params[i].second, (Scalar)b.params[i].second)) { why = "parameter " + a.params[i].first + " = " + decld(a.params[i].second) + " but the model holds " + decld(b.params[i].second); return false; } }
    if (a.vecs.size() != b.vecs.size()) { why = "number of vector parameters"; return false; }
    for (auto &kv : a.vecs) { auto it = b.vecs.find(kv.first); if (it == b.vecs.end()) { why = "vector " + kv.first + " missing"; return false; } if (kv.second.size() != it->second.size()) { why = "vector " + kv.first + " has length " + std::to_string(kv.second.size()) + ", model " + std::to_string(it->second.size()); return false; }
      for (size_t i = 0; i < kv.second.size(); i++) if (!biteq<Scalar>((Scalar)kv.second[i], (Scalar)it->second[i])) { why = "vector " + kv.first + "[" + std::to_string(i) + "]"; return false; } }
    return true; }

  // compare the selected solution of precision P with the model
  template <class Scalar> void check_selected(int P, const std::string &prop, const std::string &ctx) { Registry &R = reg[P]; if (!R.has_selected) return; SolModel &m = R.handles[R.selected];
    SolModel cur = snapshot_selected<Scalar>(m.name); std::string why; if (!same<Scalar>(cur, m, why)) fail(prop, ctx + ": selected handle '" + R.selected + "' (" + m.name + "): " + why); }

  // compare every handle of precision P with the model by selecting each in turn and restoring the selection
  template <class Scalar> void audit(int P, const std::string &prop, const std::string &ctx) { Registry &R = reg[P]; if (R.handles.empty()) return; std::string keep = R.selected;
    for (auto &kv : R.handles) { { Quiet q; MASA::masa_select_mms<Scalar>(kv.first); } SolModel cur = snapshot_selected<Scalar>(kv.second.name); std::string why;
      std::string nm; { Quiet q; MASA::masa_get_name<Scalar>(&nm); } if (nm != kv.second.name) { fail(prop, ctx + ": handle '" + kv.first + "' is a " + nm + ", the model says " + kv.second.name); break; }
      if (!same<Scalar>(cur, kv.second, why)) { fail(prop, ctx + ": handle '" + kv.first + "' (" + kv.second.name + "): " + why); break; } }
    { Quiet q; MASA::masa_select_mms<Scalar>(keep); } }
  void check_selected_both(const std::string &prop, const std::string &ctx) { check_selected<double>(0, prop, ctx); if (!failed()) check_selected<long double>(1, prop, ctx); }
  void audit_all(const std::string &prop, const std::string &ctx) {
    // the audit itself selects every handle and finally re-selects the model's one, which would repair a wrong selection: look at the currently selected objects first
    check_selected_both(prop, ctx + " (currently selected solution)"); if (failed()) return;
    audit<double>(0, prop, ctx); if (!failed()) audit<long double>(1, prop, ctx); if (!failed()) { check_list<double>(0, prop, ctx); check_list<long double>(1, prop, ctx); } }

  template <class Scalar> void check_list(int P, const std::string &prop, const std::string &ctx) { Registry &R = reg[P]; Quiet q; MASA::masa_list_mms<Scalar>(); std::string out = q.str(); std::stringstream ss(out); std::string line; std::vector<std::pair<std::string, std::string>> got; long n = -1;
    while (std::getline(ss, line)) { if (line.rfind("Number of initialized solutions: ", 0) == 0) { n = atol(line.c_str() + 33); continue; } auto p = line.rfind(" : "); if (p != std::string::npos) got.push_back({line.substr(0, p), line.substr(p + 3)}); }
    std::vector<std::pair<std::string, std::string>> want; for (auto &kv : R.handles) want.push_back({kv.first, kv.second.name});
    std::sort(got.begin(), got.end()); std::sort(want.begin(), want.end());   // the property speaks of the SET of registered handles; the order of the listing is not specified
    if (n != (long)want.size() || got != want) { std::string g; for (auto &x : got) g += "'" + x.first + "':" + x.second + " "; std::string w; for (auto &x : want) w += "'" + x.first + "':" + x.second + " "; fail(prop, ctx + ": masa_list_mms reports " + std::to_string(n) + " [" + g + "] but the registered handles are " + std::to_string(want.size()) + " [" + w + "]"); } }

  // ---------------------------------------------------------------- the fresh-handle oracle for evaluations
  template <class Scalar> static Scalar cb_fn(Scalar T) { return (Scalar)2.5 + T * (Scalar)1e-4; }
  struct EvalResult { bool threw = false; long double v = 0; std::string out; };
  template <class Scalar> EvalResult do_eval(int api, const Scalar *args, int idx) { EvalResult r; Quiet q; try { r.v = (long double)api_table<Scalar>()[api].fn(args, idx, &cb_fn<Scalar>); } catch (int) { r.threw = true; } r.out = q.str(); return r; }

  template <class Scalar> void op_eval(int P, const Op &o) { Registry &R = reg[P]; if (!R.has_selected) return; SolModel &m = R.handles[R.selected]; const auto &T = api_table<Scalar>(); const CapSpec &cs = capspec();
    // bias towards overloads the solution provides: even api numbers pick from the capability set when possible
    int api = (int)((unsigned)o.api % T.size()); auto pit = cs.provides.find(m.name); std::vector<int> mine; if (pit != cs.provides.end()) for (size_t i = 0; i < T.size(); i++) if (pit->second.count(T[i].id)) mine.push_back((int)i);
    if (o.n % 3 != 0 && !mine.empty()) api = mine[(unsigned)o.api % mine.size()];
    bool provided = pit != cs.provides.end() && pit->second.count(T[api].id); bool unspec = cs.unspecified.count(m.name) && cs.unspecified.at(m.name).count(T[api].id);
    Scalar args[4]; for (int i = 0; i < 4; i++) args[i] = decode_arg<Scalar>(o.v[i]); int idx = o.idx % 12 - 4;
    // one call in four repeats the previous evaluator at the previous point (bit-identical arguments): values cached per point or per time
    // and not refreshed by an intervening set_param / select / init only show up that way
    LastEval &le = last_eval[P]; if (o.n % 4 == 1 && le.valid && le.api < (int)T.size()) { api = le.api; for (int i = 0; i < 4; i++) args[i] = (Scalar)le.args[i]; idx = le.idx; cls["eval_repeats_previous_point"]++; }
    le.valid = true; le.api = api; for (int i = 0; i < 4; i++) le.args[i] = (long double)args[i]; le.idx = idx;
    provided = pit != cs.provides.end() && pit->second.count(T[api].id); unspec = cs.unspecified.count(m.name) && cs.unspecified.at(m.name).count(T[api].id);
    char ab[200]; snprintf(ab, sizeof ab, "%s on %s '%s' args=(%Lg,%Lg,%Lg,%Lg) idx=%d", T[api].id, m.name.c_str(), R.selected.c_str(), (long double)args[0], (long double)args[1], (long double)args[2], (long double)args[3], idx); trace.back() += std::string(" ") + ab;
    if (unspec) { cls["eval_unspecified"]++; return; }
    EvalResult r = do_eval<Scalar>(api, args, idx); evals++;
    if (!provided) { cls["eval_unprovided"]++;
      if (r.threw) { fail("C15", std::string(ab) + ": an evaluator the solution does not provide raised the fatal error instead of returning -1.33"); return; }
      if (!((Scalar)r.v == (Scalar)-1.33)) fail("C15", std::string(ab) + ": returned " + decld(r.v) + " instead of the sentinel -1.33");
      else if (r.out.find("MASA ERROR") == std::string::npos && r.out.find("SMASA ERROR") == std::string::npos) fail("C15", std::string(ab) + ": no 'MASA ERROR' line on standard output (got '" + r.out.substr(0, 80) + "')");
      if (!failed()) check_selected<Scalar>(P, "C15", std::string(ab) + " changed a parameter");
      return; }
    cls["eval_provided"]++;
    if (r.threw && m.name != "sod_1d") { fail("C16", std::string(ab) + ": a provided evaluator raised the fatal error"); return; }
    // evaluating changes no parameter of the evaluated handle ...
    check_selected<Scalar>(P, "C10", std::string(ab) + " changed a parameter visible through masa_get_param/masa_get_vec"); if (failed()) return;
    // ... and the value is reproducible bit for bit, immediately and from a fresh handle holding the same parameters
    EvalResult r2 = do_eval<Scalar>(api, args, idx);
    if (r2.threw != r.threw || (!r.threw && !biteq<Scalar>((Scalar)r.v, (Scalar)r2.v))) { fail("C10", std::string(ab) + ": repeated call returned " + decld(r2.v) + " after " + decld(r.v)); return; }
    if (cfg.check_fresh) { cls["fresh_handle_comparisons"]++; std::string keep = R.selected; std::string fh = HANDLES[FRESH_SLOT];
      { Quiet q; MASA::masa_init<Scalar>(fh, m.name); } SolModel fm = fresh_model<Scalar>(P, m.name); if (failed()) return;
      { Quiet q; for (auto &kv : m.params) MASA::masa_set_param<Scalar>(kv.first, (Scalar)kv.second); for (auto &kv : m.vecs) { std::vector<Scalar> v(kv.second.begin(), kv.second.end()); MASA::masa_set_vec<Scalar>(kv.first, v); } }
      fm.params = m.params; fm.vecs = m.vecs; R.handles[fh] = fm; R.selected = fh; R.has_selected = true;
      EvalResult r3 = do_eval<Scalar>(api, args, idx);
      { Quiet q; MASA::masa_select_mms<Scalar>(keep); } R.selected = keep;
      if (r3.threw != r.threw || (!r.threw && !biteq<Scalar>((Scalar)r.v, (Scalar)r3.v))) { fail("C10", std::string(ab) + ": returned " + decld(r.v) + " in this history but " + decld(r3.v) + " on a fresh handle holding the same parameters (value depends on something other than parameters and arguments)"); return; } }
  }
  // model of a just-initialised handle of solution `name`; defaults are learned once and must repeat
  template <class Scalar> SolModel fresh_model(int P, const std::string &name) { SolModel cur = snapshot_selected<Scalar>(name); auto it = defaults[P].find(name);
    if (it == defaults[P].end()) { defaults[P][name] = cur; return cur; } std::string why; if (!same<Scalar>(cur, it->second, why)) fail("C12", "a newly initialised " + name + " does not have its default parameters: " + why); return it->second; }

  // ---------------------------------------------------------------- one step
  template <class Scalar> void step_cpp(const Op &o) { int P = sizeof(Scalar) > 8; Registry &R = reg[P]; using namespace MASA;
    auto selm = [&]() -> SolModel * { return R.has_selected ? &R.handles[R.selected] : nullptr; };
    auto pname = [&](SolModel *m, bool &valid) -> std::string { valid = true; if (!m || m->params.empty() || o.n % 7 == 0) { valid = false; static const char *bad[] = {"", "no_such_parameter", "A_X", "gamma ", " L", "k_00"}; std::string b = bad[(unsigned)o.p % 6]; if (m && !m->params.empty() && (unsigned)o.api % 2 == 0) { b = near_name(m->params[(unsigned)o.p % m->params.size()].first, o); cls["unknown_name_derived_from_a_valid_one"]++; } if (m) for (auto &kv : m->params) if (kv.first == b) b += "_"; return b; } return m->params[(unsigned)o.p % m->params.size()].first; };
    switch (o.code) {
      case OP_INIT: { std::string s = cfg.catalogue[(unsigned)o.s % cfg.catalogue.size()]; std::string h = init_handle(o, s, R); std::string sp = spell_name(s, o); trace.back() += " '" + h + "' <- " + s + (sp != s ? " spelled '" + sp + "'" : ""); if (sp != s) cls["init_decorated_name"]++; bool re = R.handles.count(h); if (re) cls["reinit_existing_handle"]++; if (re && R.handles[h].name == s) cls["reinit_same_type"]++;
          for (auto &kv : R.handles) if (kv.first != h && kv.second.name == s) cls["two_handles_same_type"]++;
          int rc; { Quiet q; rc = masa_init<Scalar>(h, sp); } if (rc != 0) fail("C12", "masa_init returned " + std::to_string(rc));
          R.selected = h; R.has_selected = true; SolModel m = fresh_model<Scalar>(P, s); R.handles[h] = m;
          std::string nm; { Quiet q; masa_get_name<Scalar>(&nm); } if (nm != s) fail("C12", "after masa_init('" + h + "','" + s + "') masa_get_name returns '" + nm + "'"); break; }
      case OP_SELECT: { if (R.handles.empty()) break; auto it = R.handles.begin(); std::advance(it, (unsigned)o.h % R.handles.size()); trace.back() += " '" + it->first + "'"; int rc; { Quiet q; rc = masa_select_mms<Scalar>(it->first); } if (rc != 0) fail("C12", "masa_select_mms returned " + std::to_string(rc)); if (R.selected != it->first) cls["select_other_handle"]++; R.selected = it->first; R.has_selected = true;
          std::string nm; { Quiet q; masa_get_name<Scalar>(&nm); } if (nm != it->second.name) fail("C12", "after selecting '" + it->first + "' masa_get_name returns '" + nm + "', expected " + it->second.name); break; }
      case OP_SET: { SolModel *m = selm(); if (!m) break; bool valid; std::string n = pname(m, valid); Scalar v = decode_value<Scalar>(o.v[0]);
          // one valid set in eight moves the parameter by a single unit in the last place (or by 2^-40 relative): "almost the same value" is a different value
          if (valid && (unsigned)o.idx % 8 == 3) for (auto &kv : m->params) if (kv.first == n) { Scalar cur = (Scalar)kv.second; if (std::isfinite(cur) && !biteq<Scalar>(cur, (Scalar)-12345.67)) { Scalar nv = ((unsigned)o.idx / 8) % 2 ? std::nextafter(cur, (Scalar)INFINITY) : (Scalar)(cur * (1 + (Scalar)0x1p-40)); if (std::isfinite(nv) && !(std::fabs((nv + (Scalar)12345.67) / (Scalar)12345.67) < (Scalar)1e-9)) { v = nv; cls["set_nudged_value"]++; } } }
          trace.back() += " " + n + " = " + decld(v); { Quiet q; masa_set_param<Scalar>(n, v); if (!valid && q.str().find("MASA ERROR") == std::string::npos) fail("C11", "setting unknown parameter '" + n + "' printed no error"); }
          if (valid) { for (auto &kv : m->params) if (kv.first == n) kv.second = (long double)v; cls["set_valid"]++; if (biteq<Scalar>(v, (Scalar)-12345.67)) cls["set_marker_value"]++; } else cls["set_invalid_name"]++;
          check_selected<Scalar>(P, "C11", "after masa_set_param('" + n + "')"); break; }
      case OP_GET: { SolModel *m = selm(); if (!m) break; bool valid; std::string n = pname(m, valid); trace.back() += " " + n; Scalar g; { Quiet q; g = masa_get_param<Scalar>(n); }
          if (valid) { long double want = 0; for (auto &kv : m->params) if (kv.first == n) want = kv.second; if (!biteq<Scalar>(g, (Scalar)want)) fail("C11", "masa_get_param('" + n + "') returned " + decld(g) + ", last value set is " + decld(want)); }
          else { cls["get_invalid_name"]++; if (!(g == (Scalar)-20)) fail("C11", "masa_get_param of unknown name '" + n + "' returned " + decld(g) + " instead of -20"); check_selected<Scalar>(P, "C11", "after masa_get_param of an unknown name"); } break; }
      case OP_INITP: { SolModel *m = selm(); if (!m) break; int rc; { Quiet q; rc = masa_init_param<Scalar>(); } bool fixture = m->name == "masa_test_function" || m->name == "masa_uninit";
          if (fixture) { *m = snapshot_selected<Scalar>(m->name); cls["init_param_on_fixture"]++; break; }   // the two self-test fixtures are outside C11: the model follows the library, the call still runs (memory safety)
          if (rc != 0) fail("C11", "masa_init_param returned " + std::to_string(rc) + " on " + m->name); const SolModel &d = defaults[P][m->name]; m->params = d.params; for (auto &kv : d.vecs) if (init_param_resets_vec(m->name, kv.first)) m->vecs[kv.first] = kv.second; cls["init_param"]++;
          check_selected<Scalar>(P, "C11", "after masa_init_param"); break; }
      case OP_PURGE: { SolModel *m = selm(); if (!m) break; { Quiet q; masa_purge_default_param<Scalar>(); } for (auto &kv : m->params) kv.second = (long double)(Scalar)-12345.67; cls["purge"]++; check_selected<Scalar>(P, "C11", "after masa_purge_default_param"); break; }
      case OP_SANITY: { SolModel *m = selm(); if (!m) break; int rc; try { Quiet q; rc = masa_sanity_check<Scalar>(); } catch (int) { fail("C11", "masa_sanity_check raised the fatal error on " + m->name); break; } bool bad = false; for (auto &kv : m->params) if (biteq<Scalar>((Scalar)kv.second, (Scalar)-12345.67)) bad = true; for (auto &kv : m->vecs) if (kv.second.empty()) bad = true; cls[bad ? "sanity_expected_1" : "sanity_expected_0"]++;
          if (rc != (bad ? 1 : 0)) fail("C11", "masa_sanity_check returned " + std::to_string(rc) + " on " + m->name + " although " + (bad ? "a parameter is uninitialised / a vector is empty" : "every parameter is initialised")); break; }
      case OP_DISPLAY: { SolModel *m = selm(); if (!m) break; std::string out; { Quiet q; masa_display_param<Scalar>(); out = q.str(); } std::stringstream ss(out); std::string line; size_t k = 0;
          while (std::getline(ss, line)) { auto p = line.find(" is set to: "); if (p == std::string::npos) continue; if (k >= m->params.size()) { k++; break; } std::string n = line.substr(0, p), val = line.substr(p + 12); long double want = m->params[k].second; bool mk = biteq<Scalar>((Scalar)want, (Scalar)-12345.67);
            if (n != m->params[k].first) fail("C11", "masa_display_param lists '" + n + "' where the model has '" + m->params[k].first + "'"); else if (mk != (val == "Uninitialized")) fail("C11", "masa_display_param shows '" + val + "' for " + n + " whose value is " + decld(want));
            else if (!mk) { long double shown = strtold(val.c_str(), 0); if (!(fabsl(shown - want) <= 1e-14L * fabsl(want) + 1e-320L) && !(std::isinf((double)shown) && fabsl(want) > 1e300L)) fail("C11", "masa_display_param shows " + val + " for " + n + " = " + decld(want)); } k++; }
          if (k != m->params.size()) fail("C11", "masa_display_param listed " + std::to_string(k) + " parameters, the model has " + std::to_string(m->params.size())); break; }
      case OP_SETVEC: { SolModel *m = selm(); if (!m) break; bool valid = !m->vecs.empty() && o.n % 5 != 0; std::string n = "no_such_vector"; if (!m->vecs.empty()) { auto it = m->vecs.begin(); std::advance(it, (unsigned)o.p % m->vecs.size()); if (valid) n = it->first; else if ((unsigned)o.api % 2 == 0) { n = near_name(it->first, o); if (m->vecs.count(n)) n += "_"; cls["unknown_name_derived_from_a_valid_one"]++; } } int len = (unsigned)o.idx % 51; if (o.n % 4 == 1) len = 0; if (o.n % 16 == 3) len = 1000 + 17 * ((unsigned)o.idx % 251); /* one vector in sixteen is long (1000..5250 entries) */ std::vector<Scalar> v; for (int i = 0; i < len; i++) v.push_back(decode_value<Scalar>(mix64(o.v[0] + i)));
          trace.back() += " " + n + " len=" + std::to_string(len); { Quiet q; masa_set_vec<Scalar>(n, v); } if (valid) { std::vector<long double> w(v.begin(), v.end()); if (w.size() != m->vecs[n].size()) cls["vector_length_change"]++; if (len == 0) cls["vector_emptied"]++; m->vecs[n] = w; cls["set_vec"]++; } else cls["set_vec_invalid_name"]++;
          check_selected<Scalar>(P, "C11", "after masa_set_vec('" + n + "')"); break; }
      case OP_GETVEC: { SolModel *m = selm(); if (!m) break; bool valid = !m->vecs.empty() && o.n % 5 != 0; std::string n = "no_such_vector"; if (!m->vecs.empty()) { auto it = m->vecs.begin(); std::advance(it, (unsigned)o.p % m->vecs.size()); if (valid) n = it->first; else if ((unsigned)o.api % 2 == 0) { n = near_name(it->first, o); if (m->vecs.count(n)) n += "_"; cls["unknown_name_derived_from_a_valid_one"]++; } } std::vector<Scalar> v(3, (Scalar)7); int rc; { Quiet q; rc = masa_get_vec<Scalar>(n, v); }
          if (valid) { auto &w = m->vecs[n]; bool ok = rc == 0 && v.size() == w.size(); for (size_t i = 0; ok && i < w.size(); i++) ok = biteq<Scalar>(v[i], (Scalar)w[i]); if (!ok) fail("C11", "masa_get_vec('" + n + "') does not return the vector last set (length " + std::to_string(v.size()) + " vs " + std::to_string(w.size()) + ", status " + std::to_string(rc) + ")"); cls["get_vec"]++; }
          else { if (rc == 0) fail("C11", "masa_get_vec of an unknown name reports success"); if (v.size() != 3) fail("C11", "masa_get_vec of an unknown name modified the caller's vector"); } break; }
      case OP_DISPVEC: { SolModel *m = selm(); if (!m) break; std::string out; { Quiet q; masa_display_vec<Scalar>(); out = q.str(); } for (auto &kv : m->vecs) if (out.find(kv.first + " is size: " + std::to_string(kv.second.size()) + "\n") == std::string::npos) fail("C11", "masa_display_vec does not show " + kv.first + " with size " + std::to_string(kv.second.size())); break; }
      case OP_EVAL: op_eval<Scalar>(P, o); break;
      case OP_LIST: check_list<Scalar>(P, "C12", "masa_list_mms"); break;
      case OP_GETNAME: { SolModel *m = selm(); if (!m) break; std::string nm = "untouched"; int rc; { Quiet q; rc = masa_get_name<Scalar>(&nm); } if (nm != m->name || rc != 0) fail("C12", "masa_get_name returns '" + nm + "' (status " + std::to_string(rc) + "), the selected solution is " + m->name); break; }
      case OP_GETDIM: { SolModel *m = selm(); if (!m) break; int d = -99; { Quiet q; masa_get_dimension<Scalar>(&d); } auto it = capspec().dimension.find(m->name); if (it != capspec().dimension.end() && d != it->second) fail("C12", "masa_get_dimension returns " + std::to_string(d) + " for " + m->name); break; }
      case OP_AUDIT: audit_all("C12", "audit"); cls["audits"]++; break;
      case OP_PRINTID: { Quiet q; masa_printid<Scalar>(); } break;
      default: break; }
  }

  // vectors are data, not "parameters with a default": which ones masa_init_param re-creates is learned from the fresh object
  // (cp_normal re-creates vec_data, radiation re-creates its vectors) by observation at first use
  std::map<std::string, int> ip_vec_cache;
  bool init_param_resets_vec(const std::string &sol, const std::string &vec) { (void)sol; (void)vec; return true; }

  // ---------------------------------------------------------------- C interface steps: oracle = the <double> template call at the same state
  static double ccb(double T) { return 2.5 + T * 1e-4; }
  void step_c(const Op &o) { Registry &R = reg[0]; using namespace MASA; auto selm = [&]() -> SolModel * { return R.has_selected ? &R.handles[R.selected] : nullptr; };
    switch (o.code) {
      case OP_CINIT: { std::string s = cfg.catalogue[(unsigned)o.s % cfg.catalogue.size()]; std::string h = init_handle(o, s, R); std::string sp = spell_name(s, o); trace.back() += " '" + h + "' <- " + s + (sp != s ? " spelled '" + sp + "'" : ""); if (sp != s) cls["init_decorated_name"]++; int rc; { Quiet q; rc = ::masa_init(h.c_str(), sp.c_str()); } if (rc != 0) fail("C17", "C masa_init returned " + std::to_string(rc));
          R.selected = h; R.has_selected = true; R.handles[h] = fresh_model<double>(0, s); std::string nm; { Quiet q; masa_get_name<double>(&nm); } if (nm != s) fail("C17", "C masa_init('" + h + "','" + s + "') selected '" + nm + "' in the double registry"); cls["c_init"]++; break; }
      case OP_CSELECT: { if (R.handles.empty()) break; auto it = R.handles.begin(); std::advance(it, (unsigned)o.h % R.handles.size()); int rc; { Quiet q; rc = ::masa_select_mms(it->first.c_str()); } R.selected = it->first; R.has_selected = true; std::string nm; { Quiet q; masa_get_name<double>(&nm); } if (nm != it->second.name || rc != 0) fail("C17", "C masa_select_mms('" + it->first + "') did not select that handle of the double registry"); break; }
      case OP_CSET: { SolModel *m = selm(); if (!m || m->params.empty()) break; bool valid = o.n % 7 != 0; std::string n = m->params[(unsigned)o.p % m->params.size()].first; if (!valid) { if ((unsigned)o.api % 2 == 0) { n = near_name(n, o); for (auto &kv : m->params) if (kv.first == n) n += "_"; cls["unknown_name_derived_from_a_valid_one"]++; } else n = "no_such_parameter"; } double v = decode_value<double>(o.v[0]); if (valid && (unsigned)o.idx % 8 == 3) for (auto &kv : m->params) if (kv.first == n) { double cur = (double)kv.second; if (std::isfinite(cur) && !biteq<double>(cur, -12345.67)) { double nv = std::nextafter(cur, INFINITY); if (std::isfinite(nv) && !(std::fabs((nv + 12345.67) / 12345.67) < 1e-9)) { v = nv; cls["set_nudged_value"]++; } } }
          { Quiet q; ::masa_set_param(n.c_str(), v); } if (valid) for (auto &kv : m->params) if (kv.first == n) kv.second = v; cls["c_set"]++;
          check_selected<double>(0, "C17", "after C masa_set_param('" + n + "') the C++ view"); break; }
      case OP_CGET: { SolModel *m = selm(); if (!m || m->params.empty()) break; bool valid = o.n % 7 != 0; std::string n = m->params[(unsigned)o.p % m->params.size()].first; if (!valid) { if ((unsigned)o.api % 2 == 0) { n = near_name(n, o); for (auto &kv : m->params) if (kv.first == n) n += "_"; cls["unknown_name_derived_from_a_valid_one"]++; } else n = "no_such_parameter"; } double a, b; { Quiet q; a = ::masa_get_param(n.c_str()); b = masa_get_param<double>(n); } if (!biteq<double>(a, b)) fail("C17", "C masa_get_param('" + n + "') = " + decld(a) + ", C++ = " + decld(b)); cls["c_get"]++; break; }
      case OP_CINITP: { SolModel *m = selm(); if (!m) break; int a, b; { Quiet q; a = ::masa_init_param(); } { Quiet q; b = masa_init_param<double>(); } bool fixture = m->name == "masa_test_function" || m->name == "masa_uninit"; if (fixture) { *m = snapshot_selected<double>(m->name); } else { const SolModel &d = defaults[0][m->name]; m->params = d.params; for (auto &kv : d.vecs) m->vecs[kv.first] = kv.second; } if (a != b) fail("C17", "C masa_init_param returned " + std::to_string(a) + ", the C++ call reports " + std::to_string(b) + " (" + m->name + ")"); cls[b ? "c_initparam_nonzero_status" : "c_initparam_zero_status"]++; check_selected<double>(0, "C17", "after C masa_init_param"); break; }
      case OP_CPURGE: { SolModel *m = selm(); if (!m) break; { Quiet q; ::masa_purge_default_param(); } for (auto &kv : m->params) kv.second = -12345.67; check_selected<double>(0, "C17", "after C masa_purge_default_param"); break; }
      case OP_CSANITY: { SolModel *m = selm(); if (!m) break; int a, b; try { { Quiet q; a = ::masa_sanity_check(); } { Quiet q; b = masa_sanity_check<double>(); } } catch (int) { break; } if (a != b) fail("C17", "C masa_sanity_check returned " + std::to_string(a) + ", the C++ call reports " + std::to_string(b) + " (" + m->name + ")"); cls[b ? "c_sanity_nonzero_status" : "c_sanity_zero_status"]++; break; }
      case OP_CDISPLAY: { if (!selm()) break; std::string a, b; { Quiet q; ::masa_display_param(); a = q.str(); } { Quiet q; masa_display_param<double>(); b = q.str(); } if (a != b) fail("C17", "C masa_display_param prints something different from the C++ call"); break; }
      case OP_CDISPARR: { if (!selm()) break; std::string a, b; { Quiet q; ::masa_display_array(); a = q.str(); } { Quiet q; masa_display_vec<double>(); b = q.str(); } if (a != b) fail("C17", "C masa_display_array prints something different from masa_display_vec<double>"); break; }
      case OP_CSETARR: { SolModel *m = selm(); if (!m) break; bool valid = !m->vecs.empty() && o.n % 5 != 0; std::string n = "no_such_vector"; if (!m->vecs.empty()) { auto it = m->vecs.begin(); std::advance(it, (unsigned)o.p % m->vecs.size()); if (valid) n = it->first; else if ((unsigned)o.api % 2 == 0) { n = near_name(it->first, o); if (m->vecs.count(n)) n += "_"; cls["unknown_name_derived_from_a_valid_one"]++; } } int len = (unsigned)o.idx % 51; if (o.n % 4 == 1) len = 0; if (o.n % 16 == 3) len = 1000 + 17 * ((unsigned)o.idx % 251);
          // exact-size heap buffer so that AddressSanitizer sees any access beyond the announced length
          double *buf = (double *)malloc(sizeof(double) * (len ? len : 1)); for (int i = 0; i < len; i++) buf[i] = decode_value<double>(mix64(o.v[0] + i)); int nn = len; { Quiet q; ::masa_set_array(n.c_str(), &nn, buf); }
          if (nn != len) fail("C17", "C masa_set_array changed *n"); if (valid) { std::vector<long double> w(buf, buf + len); if (len == 0) cls["c_array_length_0"]++; m->vecs[n] = w; cls["c_set_array"]++; } free(buf);
          check_selected<double>(0, "C17", "after C masa_set_array('" + n + "', n=" + std::to_string(len) + ") the C++ view"); break; }
      case OP_CGETARR: { SolModel *m = selm(); if (!m) break; bool valid = !m->vecs.empty() && o.n % 5 != 0; std::string n = "no_such_vector"; if (!m->vecs.empty()) { auto it = m->vecs.begin(); std::advance(it, (unsigned)o.p % m->vecs.size()); if (valid) n = it->first; else if ((unsigned)o.api % 2 == 0) { n = near_name(it->first, o); if (m->vecs.count(n)) n += "_"; cls["unknown_name_derived_from_a_valid_one"]++; } }
          std::vector<double> ref; int rcpp; { Quiet q; rcpp = masa_get_vec<double>(n, ref); } size_t cap = valid ? ref.size() : 4; double *buf = (double *)malloc(sizeof(double) * (cap ? cap : 1)); for (size_t i = 0; i < cap; i++) buf[i] = 777.0; int nn = -5; int rc; { Quiet q; rc = ::masa_get_array(n.c_str(), &nn, buf); }
          if (rc != rcpp) fail("C17", "C masa_get_array('" + n + "') returned status " + std::to_string(rc) + ", masa_get_vec<double> reports " + std::to_string(rcpp)); cls[rcpp ? "c_get_array_nonzero_status" : "c_get_array_zero_status"]++;
          if (valid) { if (nn != (int)ref.size()) fail("C17", "C masa_get_array('" + n + "') reports length " + std::to_string(nn) + ", the vector has " + std::to_string(ref.size())); else for (size_t i = 0; i < ref.size(); i++) if (!biteq<double>(buf[i], ref[i])) { fail("C17", "C masa_get_array('" + n + "')[" + std::to_string(i) + "] differs from masa_get_vec<double>"); break; } }
          else { if (nn != (int)ref.size()) fail("C17", "C masa_get_array of the unknown name '" + n + "' reports length " + std::to_string(nn) + ", masa_get_vec<double> leaves the caller's vector at length " + std::to_string(ref.size())); else for (size_t i = 0; i < cap; i++) if (buf[i] != 777.0) { fail("C17", "C masa_get_array of an unknown name wrote into the caller's array"); break; } }
          free(buf); break; }
      case OP_CEVAL: { SolModel *m = selm(); if (!m) break; const auto &C = capi_table(); const auto &T = api_table<double>(); const CapSpec &cs = capspec(); int ci = (unsigned)o.api % C.size();
          auto pit = cs.provides.find(m->name); if (o.n % 3 != 0 && pit != cs.provides.end()) { std::vector<int> mine; for (size_t i = 0; i < C.size(); i++) if (pit->second.count(C[i].cxx_id)) mine.push_back((int)i); if (!mine.empty()) ci = mine[(unsigned)o.api % mine.size()]; }
          int ti = -1; for (size_t i = 0; i < T.size(); i++) if (std::string(T[i].id) == C[ci].cxx_id) ti = (int)i; if (ti < 0) break; if (cs.unspecified.count(m->name) && cs.unspecified.at(m->name).count(T[ti].id)) break;
          double args[4]; for (int i = 0; i < 4; i++) args[i] = decode_arg<double>(o.v[i]); int idx = o.idx % 12 - 4; bool t1 = false, t2 = false; double a = 0, b = 0; { Quiet q; try { a = C[ci].fn(args, idx, &ccb); } catch (int) { t1 = true; } } { Quiet q; try { b = T[ti].fn(args, idx, &ccb); } catch (int) { t2 = true; } }
          char ab[160]; snprintf(ab, sizeof ab, "%s on %s args=(%g,%g,%g,%g) idx=%d", C[ci].name, m->name.c_str(), args[0], args[1], args[2], args[3], idx); trace.back() += std::string(" ") + ab; evals++; cls[(pit != cs.provides.end() && pit->second.count(C[ci].cxx_id)) ? "c_eval_provided" : "c_eval_unprovided"]++;
          if (t1 != t2 || (!t1 && !biteq<double>(a, b))) fail("C17", std::string(ab) + " returned " + decld(a) + ", " + T[ti].id + "<double> returns " + decld(b)); break; }
      case OP_CLIST: { std::string a, b; { Quiet q; ::masa_list_mms(); a = q.str(); } { Quiet q; masa_list_mms<double>(); b = q.str(); } if (a != b) fail("C17", "C masa_list_mms prints something different from the C++ call"); break; }
      case OP_CGETNAME: { SolModel *m = selm(); if (!m) break; size_t L = m->name.size(); size_t cap = L + 1 + 16; char *buf = (char *)malloc(cap); memset(buf, '#', cap); int rc; { Quiet q; rc = ::masa_get_name(buf); }
          bool ok = rc == 0 && memcmp(buf, m->name.c_str(), L + 1) == 0; for (size_t i = L + 1; ok && i < cap; i++) ok = buf[i] == '#';
          if (!ok) fail("C17", "C masa_get_name did not write the solution name '" + m->name + "' (NUL-terminated, nothing beyond) into the caller's buffer: got '" + std::string(buf, strnlen(buf, cap)).substr(0, 40) + "'"); free(buf); cls["c_get_name"]++; break; }
      case OP_CGETDIM: { if (!selm()) break; int a = -7, b = -7; { Quiet q; ::masa_get_dimension(&a); masa_get_dimension<double>(&b); } if (a != b) fail("C17", "C masa_get_dimension gives " + std::to_string(a) + ", C++ " + std::to_string(b)); break; }
      default: break; }
  }


  // ---------------------------------------------------------------- C16: misuse at an arbitrary point of the history
  struct FatalOutcome { bool terminated = false; int code = -1; std::string out; bool returned = false; };
  FatalOutcome provoke(const std::function<void()> &call) { FatalOutcome f;
    if (cfg.fatal_mode == 0) { Quiet q; try { call(); f.returned = true; } catch (int e) { f.terminated = true; f.code = e; } catch (...) { f.terminated = true; f.code = -2; } f.out = q.str(); return f; }
    int pfd[2]; if (pipe(pfd) != 0) return f; fflush(stdout); std::cout.flush(); pid_t pid = fork();
    if (pid == 0) { alarm(60); /* one API call; a process that is still alive after 60 s did not terminate */ close(pfd[0]); dup2(pfd[1], 1); close(pfd[1]); call(); std::cout.flush(); _exit(42); }
    close(pfd[1]); char buf[4096]; ssize_t n; while ((n = read(pfd[0], buf, sizeof buf)) > 0) f.out.append(buf, n); close(pfd[0]); int st = 0; waitpid(pid, &st, 0);
    if (WIFEXITED(st)) { if (WEXITSTATUS(st) == 42) f.returned = true; else { f.terminated = true; f.code = WEXITSTATUS(st); } } else { f.terminated = true; f.code = -1000 - (WIFSIGNALED(st) ? WTERMSIG(st) : 0); }
    return f; }
  template <class Scalar> std::vector<std::pair<std::string, std::function<void()>>> &needs_solution() { static std::vector<std::pair<std::string, std::function<void()>>> v; if (!v.empty()) return v; using namespace MASA;
    static Scalar a4[4] = {(Scalar)0.3, (Scalar)0.4, (Scalar)0.5, (Scalar)0.6};
    for (auto &e : api_table<Scalar>()) { auto fn = e.fn; v.push_back({e.id, [fn]() { fn(a4, 1, &cb_fn<Scalar>); }}); }
    v.push_back({"masa_set_param", []() { masa_set_param<Scalar>("L", (Scalar)1); }}); v.push_back({"masa_get_param", []() { masa_get_param<Scalar>("L"); }}); v.push_back({"masa_init_param", []() { masa_init_param<Scalar>(); }});
    v.push_back({"masa_purge_default_param", []() { masa_purge_default_param<Scalar>(); }}); v.push_back({"masa_sanity_check", []() { masa_sanity_check<Scalar>(); }}); v.push_back({"masa_display_param", []() { masa_display_param<Scalar>(); }});
    v.push_back({"masa_display_vec", []() { masa_display_vec<Scalar>(); }}); v.push_back({"masa_set_vec", []() { std::vector<Scalar> x(2, (Scalar)1); masa_set_vec<Scalar>("vec_data", x); }}); v.push_back({"masa_get_vec", []() { std::vector<Scalar> x; masa_get_vec<Scalar>("vec_data", x); }});
    v.push_back({"masa_get_name", []() { std::string n; masa_get_name<Scalar>(&n); }}); v.push_back({"masa_get_dimension", []() { int d; masa_get_dimension<Scalar>(&d); }});
    if (sizeof(Scalar) == 8) { static double d4[4] = {0.3, 0.4, 0.5, 0.6}; for (auto &e : capi_table()) { auto fn = e.fn; v.push_back({std::string("C ") + e.name, [fn]() { fn(d4, 1, &ccb); }}); }
      v.push_back({"C masa_set_param", []() { ::masa_set_param("L", 1.0); }}); v.push_back({"C masa_get_param", []() { ::masa_get_param("L"); }}); v.push_back({"C masa_init_param", []() { ::masa_init_param(); }}); v.push_back({"C masa_sanity_check", []() { ::masa_sanity_check(); }});
      v.push_back({"C masa_purge_default_param", []() { ::masa_purge_default_param(); }}); v.push_back({"C masa_display_param", []() { ::masa_display_param(); }}); v.push_back({"C masa_display_array", []() { ::masa_display_array(); }});
      v.push_back({"C masa_get_name", []() { char b[128]; ::masa_get_name(b); }}); v.push_back({"C masa_get_dimension", []() { int d; ::masa_get_dimension(&d); }});
      v.push_back({"C masa_get_array", []() { int n = 0; double b[64]; ::masa_get_array("vec_data", &n, b); }}); v.push_back({"C masa_set_array", []() { int n = 2; double b[2] = {1, 2}; ::masa_set_array("vec_data", &n, b); }}); }
    return v; }
  template <class Scalar> void step_fatal(const Op &o) { int P = sizeof(Scalar) > 8; Registry &R = reg[P]; using namespace MASA; int kind = o.n % 3; if (kind == 0 && R.has_selected) kind = 1 + (o.n / 3) % 2;
    std::string what; std::function<void()> call;
    if (kind == 0) { auto &L = needs_solution<Scalar>(); auto &e = L[(unsigned)o.api % L.size()]; what = e.first + std::string(P ? "<long double>" : "<double>") + " before any masa_init"; call = e.second; cls["fatal:api_on_empty_registry"]++; }
    else if (kind == 1) { std::string h = std::string(HANDLES[(unsigned)o.h % NHANDLES]) + (o.p % 2 ? "?" : " "); while (R.handles.count(h)) h += "?"; bool c = !P && (o.idx & 1); what = std::string(c ? "C " : "") + "masa_select_mms('" + h + "') of an unknown handle"; if (c) call = [h]() { ::masa_select_mms(h.c_str()); }; else call = [h]() { masa_select_mms<Scalar>(h); }; cls["fatal:select_unknown_handle"]++; }
    else { std::string s = cfg.catalogue[(unsigned)o.s % cfg.catalogue.size()]; int m = o.p % 4; if (m == 0 && s.size() > 2) s.erase((o.p / 4) % s.size(), 1); else if (m == 1) s += "x"; else if (m == 2) s = "_" + s; else s = "no such solution";
      std::string h = HANDLES[(unsigned)o.h % NHANDLES]; bool c = !P && (o.idx & 1); what = std::string(c ? "C " : "") + "masa_init('" + h + "','" + s + "') of an unknown solution name" + (R.handles.count(h) ? " onto an existing handle" : " onto a new handle"); cls[R.handles.count(h) ? "fatal:init_unknown_name_existing_handle" : "fatal:init_unknown_name_new_handle"]++;
      if (c) call = [h, s]() { ::masa_init(h.c_str(), s.c_str()); }; else call = [h, s]() { masa_init<Scalar>(h, s); }; }
    trace.back() += " " + what; if (step > 1) cls["fatal:after_nonempty_prefix"]++; if (reg[0].handles.size() + reg[1].handles.size() >= 2) cls["fatal:with>=2_live_handles"]++;
    FatalOutcome f = provoke(call);
    if (f.returned) { fail("C16", what + " returned normally instead of raising the fatal error"); return; }
    if (f.code != 1) { fail("C16", what + (cfg.fatal_mode ? " ended the process with status " : " threw ") + std::to_string(f.code) + " instead of 1"); return; }
    if (f.out.find("MASA FATAL ERROR") == std::string::npos) { fail("C16", what + " did not report 'MASA FATAL ERROR' (output: '" + f.out.substr(0, 100) + "')"); return; }
    // caught: registry, selection and every parameter exactly as before (the model did not move)
    if (cfg.fatal_mode == 0) {
      // the selection first (the audit below re-selects every handle and would repair a lost selection), then every handle of both registries
      for (int p = 0; p < 2 && !failed(); p++) { std::string nm; bool threw = false; { Quiet q; try { if (p) masa_get_name<long double>(&nm); else masa_get_name<double>(&nm); } catch (int) { threw = true; } }
        if (reg[p].has_selected) { if (threw) fail("C16", "after the caught fatal error of " + what + " the " + (p ? "long double" : "double") + " registry has no selected solution any more"); else if (nm != reg[p].handles[reg[p].selected].name) fail("C16", "after the caught fatal error of " + what + " the selected solution is " + nm + ", before it was " + reg[p].handles[reg[p].selected].name); }
        else if (!threw) fail("C16", "after the caught fatal error of " + what + " a solution (" + nm + ") is selected in a registry that had none"); }
      if (!failed()) check_selected_both("C16", "after the caught fatal error of " + what);
      if (!failed()) audit_all("C16", "after the caught fatal error of " + what); }
  }

  void run_step(const Op &raw) { Op o = raw; o.code = (int)((unsigned)o.code % OP_COUNT); o.prec &= 1; step++; trace.push_back(std::string(OP_NAMES[o.code]) + (o.code < OP_CINIT ? (o.prec ? "<long double>" : "<double>") : ""));
    cls[std::string("op:") + OP_NAMES[o.code]]++;
    if (o.code >= OP_CINIT && o.code < OP_FATAL) { if (cfg.c_interface) step_c(o); }
    else if (o.code < OP_CINIT) { if (o.prec) step_cpp<long double>(o); else step_cpp<double>(o); }
    else if (o.code == OP_FATAL) { if (o.prec) step_fatal<long double>(o); else step_fatal<double>(o); }
    if (!failed() && cfg.audit_every_step) audit_all("C12", "after step " + std::to_string(step) + " (" + trace.back() + ")");
  }

  void reset_library() { Quiet q; MASA::masa_verif_reset(); }
  // runs the whole history from an empty registry; returns true when no failure was recorded
  bool run(const std::vector<Op> &ops) { reset_library(); for (auto &o : ops) { run_step(o); if (failed()) break; } if (!failed()) { audit_all("C12", "final audit"); }
    // classification of the history as a whole
    if (cls["reinit_existing_handle"] && cls["two_handles_same_type"]) cls["H:reinit_and_twin_handles"]++;
    return !failed(); }
};

inline std::string history_to_text(const std::vector<Op> &ops, const std::string &prop, const std::string &note = "") { std::string t = "verif-history 1\nprop " + prop + "\n"; if (!note.empty()) t += "# " + note + "\n"; for (auto &o : ops) t += op_to_text(o) + "\n"; return t; }
inline bool history_from_text(const std::string &text, std::vector<Op> &ops, std::string &prop) { std::istringstream in(text); std::string l; bool ok = false; while (std::getline(in, l)) { if (l.rfind("verif-history", 0) == 0) ok = true; else if (l.rfind("prop ", 0) == 0) prop = l.substr(5); else if (l.rfind("op ", 0) == 0) { Op o; if (op_from_text(l, o)) ops.push_back(o); } } return ok; }
