// Numerical case model shared by the rapidcheck driver (num_main.cpp) and the replay path.
#pragma once
#include "oracles.hpp"
#include "util.hpp"

struct NumCase {
  std::string sol;                                   // catalogue name
  int prec = 0;                                      // 0 = double, 1 = long double
  std::map<std::string, long double> params;         // values already rounded to the scalar type under test
  long double pt[4] = {0, 0, 0, 0};                  // evaluator arguments, rounded likewise
  std::vector<long double> vec;                      // data vector (cp_normal only)
  int cb_kind = 0; long double cb[3] = {1, 0, 0};    // K_eq callback family member (euler_chem_1d only)
  std::string only;                                  // when non-empty: evaluate only this label (replay of one cell)
};

struct Outcome {
  std::string label;
  long double lib = 0; Q ref; double err = 0; double errab = -1; bool finding_cell = false;        // err in units of eps(Scalar)*ref.m
  int status = 0;                                    // 0 ok, 1 violation, 2 known finding (as-built form matches, property form does not), 3 skipped
  std::string finding;                               // known-finding key for status 2
  std::string note;
  bool directed = false;                             // evaluated under a directed rounding mode (judged with DIRECTED_K_FACTOR * K)
};
constexpr double DIRECTED_K_FACTOR = 16;

struct CaseCtx;  // opaque evaluation context
struct Ev {
  std::string label; int kind;                       // kind: 0 source, 1 exact field, 2 gradient, 3 relation
  std::function<long double(const long double *)> ld; std::function<double(const double *)> d;
  std::function<Q(const PM &, const Q *)> ref;       // the operator the property names
  std::function<Q(const PM &, const Q *)> asbuilt;   // optional: what the tree is known to compute instead (known findings only)
  std::string finding;
  std::function<bool(const PM &, const Q *)> skip;   // optional: true when the point is too close to a switching surface
  int expect_err = 0;                                // gradients with an invalid direction index: 1 = exactly -1, 2 = NaN, at every point
};

struct Spec {
  std::string name; std::vector<std::string> props; int nargs;
  // gen: receives the registered names with their defaults, returns the generated assignment (as long double, unrounded)
  std::function<void(Draw &, std::map<std::string, long double> &, bool sweep)> gen;
  std::function<void(Draw &, long double *pt, const std::map<std::string, long double> &)> genpt;
  std::function<void(Draw &, std::vector<long double> &)> genvec;   // data vector (cp_normal)
  std::vector<Ev> evals;
  // relations between library values (metamorphic / closure checks); appended to the outcomes
  std::function<void(const NumCase &, const PM &, std::vector<Outcome> &, double K)> relations;
};

const std::vector<Spec> &all_specs();
long &mirror_compared();   // number of C-vs-C++ evaluator comparisons done by the mirror pass so far
const Spec *find_spec(const std::string &name);

// registered scalar parameter names and their current values for the selected solution (parsed from masa_display_param)
std::vector<std::string> param_names(int prec);

// initialise a fresh handle, apply the assignment, evaluate every evaluator of the spec (or c.only)
std::vector<Outcome> run_case(const Spec &s, const NumCase &c, double K, const std::string &prop);

// case <-> text (replay files)
std::string case_to_text(const NumCase &c, const std::string &prop, const std::string &failed_label);
bool case_from_text(const std::string &text, NumCase &c, std::string &prop);
std::string case_to_json(const NumCase &c, const std::vector<Outcome> *o = nullptr);

// build a case from entropy
NumCase make_case(const Spec &s, int prec, const std::vector<uint64_t> &entropy, bool sweep);
bool nontrivial(const NumCase &c);
uint64_t case_hash(const NumCase &c);

// data vector of the case being evaluated (cp_normal), as held by the library
const std::vector<Q> &current_vec();
void set_current_vec(const std::vector<Q> &v);

// callback family for euler_chem_1d
void set_callback(int kind, const long double c[3]);
double keq_d(double T); long double keq_ld(long double T); Q keq_q(Q T);
