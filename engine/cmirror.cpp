// C-interface mirror pass of the numeric checks: on the currently selected double handle every extern "C" evaluator of the given arity is
// called at the point of the case and compared bit for bit with the C++ <double> overload of the same name and arity (table generated from
// masa.h.in / cmasa.cpp by name, not from the forwarding code). The residual/field properties are stated for "the evaluators"; a value that is
// right through the C++ templates and wrong through the C entry point (which the Fortran module binds to) is wrong for that solution.
#include "api_gen.hpp"
#include "cmirror.hpp"
#include "util.hpp"
#include <cstring>
#include <map>
#include <cmath>

static bool same_bits(double a, double b) { return (std::isnan(a) && std::isnan(b)) || memcmp(&a, &b, 8) == 0; }

std::vector<MirrorMismatch> c_mirror(const double *pt, int nargs, int want_grad, double (*cb)(double), long *compared) {
  static std::map<std::string, const ApiEntry<double> *> cxx;
  if (cxx.empty()) for (auto &e : api_table<double>()) cxx[e.id] = &e;
  std::vector<MirrorMismatch> out; Quiet q;
  for (auto &c : capi_table()) {
    std::string sig = c.sig; int ns = 0; bool hasI = false, hasF = false; for (char ch : sig) { if (ch == 'S') ns++; else if (ch == 'I') hasI = true; else if (ch == 'F') hasF = true; }
    if (ns != nargs) continue; bool is_grad = std::string(c.name).find("_grad_") != std::string::npos;
    if (want_grad == 0 && is_grad) continue; if (want_grad == 1 && !is_grad) continue;
    if (hasF && !cb) continue;
    auto it = cxx.find(c.cxx_id); if (it == cxx.end()) continue;
    for (int idx = (hasI ? 0 : 1); idx <= (hasI ? 4 : 1); idx++) {
      double a = c.fn(pt, idx, cb), b = it->second->fn(pt, idx, cb);
      if (compared) ++*compared;
      if (!same_bits(a, b)) { MirrorMismatch m; m.cname = c.name; m.cxx_id = c.cxx_id; m.idx = hasI ? idx : 0; m.c = a; m.cxx = b; out.push_back(m); } } }
  return out;
}
