// rapidcheck driver for the history properties C10, C11, C12, C15, C17.
//   hist --prop C11 --seed N --cases M --maxsize S --out stats.json --faildir DIR     |    hist --replay FILE
#include <rapidcheck.h>
#include "hist.hpp"
#include <sys/stat.h>
#include <signal.h>
#include <functional>

static std::vector<std::string> read_catalogue() { Quiet q; MASA::masa_printid<double>(); std::vector<std::string> out; std::stringstream ss(q.str()); std::string l; int bars = 0;
  while (std::getline(ss, l)) { if (l.find("*-----") != std::string::npos) { bars++; continue; } if (bars == 1 && !l.empty()) out.push_back(l); } return out; }

struct Profile { std::vector<int> codes; bool fixtures = false; bool fresh = true; bool audit = false; bool cface = false; };
static Profile profile_for(const std::string &p) { Profile f;
  std::vector<int> param = {OP_SET, OP_SET, OP_SET, OP_GET, OP_GET, OP_INITP, OP_PURGE, OP_SANITY, OP_DISPLAY, OP_SETVEC, OP_SETVEC, OP_GETVEC, OP_DISPVEC};
  std::vector<int> regs = {OP_INIT, OP_INIT, OP_INIT, OP_SELECT, OP_SELECT, OP_LIST, OP_GETNAME, OP_GETDIM, OP_AUDIT};
  std::vector<int> cops = {OP_CINIT, OP_CINIT, OP_CSELECT, OP_CSET, OP_CSET, OP_CGET, OP_CINITP, OP_CPURGE, OP_CSANITY, OP_CDISPLAY, OP_CSETARR, OP_CSETARR, OP_CGETARR, OP_CGETARR, OP_CEVAL, OP_CEVAL, OP_CEVAL, OP_CLIST, OP_CGETNAME, OP_CGETDIM, OP_CDISPARR};
  auto add = [&](const std::vector<int> &v, int times = 1) { for (int t = 0; t < times; t++) f.codes.insert(f.codes.end(), v.begin(), v.end()); };
  if (p == "C10") { add({OP_INIT}, 3); add({OP_SELECT}, 3); add({OP_EVAL}, 12); add({OP_SET, OP_SETVEC, OP_CSET}, 2); f.fresh = true; }
  else if (p == "C11") { add({OP_INIT}, 2); add({OP_SELECT}, 1); add(param, 2); add({OP_EVAL}, 3); }
  else if (p == "C12") { add(regs, 3); add({OP_SET, OP_GET, OP_EVAL, OP_INITP, OP_SETVEC, OP_CSET, OP_CINIT}, 2); f.audit = true; f.fresh = false; }
  else if (p == "C15") { add({OP_INIT}, 3); add({OP_SELECT}, 1); add({OP_EVAL}, 14); add({OP_SET}, 1); f.fresh = false; }
  else if (p == "C17") { add(cops, 2); add({OP_INIT, OP_SELECT, OP_SET, OP_SETVEC, OP_PURGE, OP_INITP}, 1); f.fixtures = true; f.fresh = false; f.cface = true; }
  else if (p == "C16") { add(regs, 2); add({OP_SET, OP_GET, OP_EVAL, OP_SETVEC, OP_CSET, OP_CINIT, OP_PURGE}, 1); add({OP_FATAL}, 6); f.audit = false; f.fresh = false; }
  else { add(regs); add(param); add(cops); add({OP_EVAL}, 4); add({OP_FATAL}, 1); add({OP_SETVEC, OP_CSETARR, OP_CGETARR, OP_GETVEC}, 2); f.fixtures = (p == "C19"); }    // "all": used by the sanitizer runs; C19 quantifies over every API history, the two self-test fixtures included
  return f; }


// the catalogue a profile initialises from: fixtures only where wanted, vector-bearing solutions over-represented where vectors matter,
// sod_1d left out of the exit() build. Generation and replay MUST use the same list (operation records index into it).
static std::vector<std::string> catalogue_for(const std::string &prop, const Profile &pf, int fatal_mode) { std::vector<std::string> use = read_catalogue();
  if (!pf.fixtures) use.erase(std::remove_if(use.begin(), use.end(), [](const std::string &s) { return s == "masa_test_function" || s == "masa_uninit"; }), use.end());
  if (prop == "C11" || prop == "C17" || prop == "C10" || prop == "C19") for (int i = 0; i < 5; i++) { use.push_back("cp_normal"); use.push_back("radiation_integrated_intensity"); }
  if (fatal_mode == 1) use.erase(std::remove(use.begin(), use.end(), std::string("sod_1d")), use.end());
  return use; }

// Every generated history runs in a forked child: static state inside the library (caches, scratch buffers) cannot leak from one
// case into the next, so a failing history reproduces from its file in a fresh process, and a crash of the library is attributed to
// the history that caused it while the parent goes on (and shrinks).
struct Forked { std::map<std::string, long> cls; std::vector<Failure> fails; std::vector<std::string> trace; int step = 0; long evals = 0; int signal = 0; bool ok = false; };
static Forked run_forked(const std::vector<Op> &ops, const HistConfig &cfg) { Forked R; int pfd[2]; if (pipe(pfd) != 0) return R; fflush(stderr); pid_t pid = fork();
  if (pid == 0) { close(pfd[0]); alarm(300);   /* a child that hangs (e.g. a deadlock after heap corruption) must not block the campaign; SIGALRM is counted as inconclusive, not as a failure */
    History H; H.cfg = cfg;
    // the child must never return into rapidcheck: a fatal error escaping the interpreter (e.g. from an audit after the library damaged its own registry) is a failure of this history
    try { H.run(ops); } catch (int e) { H.fail(cfg.escape_prop.empty() ? "C16" : cfg.escape_prop, "the fatal error (" + std::to_string(e) + ") was raised by a call that is legal at this point of the history: " + (H.trace.empty() ? std::string("?") : H.trace.back())); } catch (...) { H.fail(cfg.escape_prop.empty() ? "C16" : cfg.escape_prop, "an unexpected exception escaped from the library"); }
    std::string o; o += "S " + std::to_string(H.step) + " " + std::to_string(H.evals) + "\n";
    for (auto &kv : H.cls) o += "C " + std::to_string(kv.second) + " " + kv.first + "\n"; for (auto &f : H.fails) { std::string m = f.msg; for (auto &ch : m) if (ch == '\n') ch = ' '; o += "F " + f.prop + " " + std::to_string(f.step) + " " + m + "\n"; }
    for (size_t i = 0; i < H.trace.size() && i < 40; i++) { std::string t = H.trace[i]; for (auto &ch : t) if (ch == '\n') ch = ' '; o += "T " + t + "\n"; } o += "E\n";
    size_t off = 0; while (off < o.size()) { ssize_t w = write(pfd[1], o.data() + off, o.size() - off); if (w <= 0) break; off += (size_t)w; } close(pfd[1]); _exit(0); }
  close(pfd[1]); std::string in; char buf[8192]; ssize_t n; while ((n = read(pfd[0], buf, sizeof buf)) > 0) in.append(buf, n); close(pfd[0]); int st = 0; waitpid(pid, &st, 0);
  if (WIFSIGNALED(st)) R.signal = WTERMSIG(st); else if (WIFEXITED(st) && WEXITSTATUS(st) != 0) R.signal = 1000 + WEXITSTATUS(st);
  std::istringstream ss(in); std::string l; while (std::getline(ss, l)) { if (l == "E") R.ok = true; else if (l[0] == 'S') { std::istringstream x(l.substr(2)); x >> R.step >> R.evals; } else if (l[0] == 'C') { std::istringstream x(l.substr(2)); long v; x >> v; std::string k; std::getline(x, k); R.cls[k.substr(1)] = v; }
    else if (l[0] == 'F') { std::istringstream x(l.substr(2)); Failure f; x >> f.prop >> f.step; std::getline(x, f.msg); if (!f.msg.empty()) f.msg = f.msg.substr(1); R.fails.push_back(f); } else if (l[0] == 'T') R.trace.push_back(l.substr(2)); }
  return R; }
static Op decode(const std::vector<uint64_t> &r, const Profile &pf, const std::string &prop) { Op o; uint64_t a = r.size() > 0 ? r[0] : 0, b = r.size() > 1 ? r[1] : 0; o.code = pf.codes[a % pf.codes.size()]; o.prec = (a >> 16) & 1; o.n = (a >> 20) & 0xffff;
  o.h = b & 0xff; o.s = (b >> 8) & 0xffff; o.p = (b >> 24) & 0xffff; o.api = (b >> 40) & 0xffff; o.idx = (b >> 56) & 0xff; for (int i = 0; i < 4; i++) o.v[i] = r.size() > (size_t)(2 + i) ? r[2 + i] : 0;
  if (prop == "C15") o.n = o.n - o.n % 3;        // C15 aims at overloads outside the capability set
  if (prop == "C17") o.prec = 0;
  return o; }

static bool nontrivial(const std::string &prop, std::map<std::string, long> &c) {
  if (prop == "C10") return c["eval_provided"] >= 2 && (c["select_other_handle"] > 0 || (c["op:init"] >= 2));
  if (prop == "C11") return (c["set_invalid_name"] + c["get_invalid_name"] + c["set_vec_invalid_name"]) > 0 && (c["purge"] + c["init_param"]) > 0 && c["set_valid"] > 0;
  if (prop == "C12") return c["op:init"] + c["op:c:init"] >= 3 && c["reinit_existing_handle"] > 0 && c["two_handles_same_type"] > 0;
  if (prop == "C15") return c["eval_unprovided"] >= 3;
  if (prop == "C16") return c["op:fatal-misuse"] >= 1 && c["fatal:after_nonempty_prefix"] >= 1;
  if (prop == "C19") return c["reinit_existing_handle"] > 0 && (c["vector_length_change"] + c["c_set_array"]) > 0;
  if (prop == "C17") return (c["c_set"] + c["c_get"] + c["c_eval_provided"] + c["c_set_array"] + c["c_get_name"]) >= 3 && (c["op:set_param"] + c["op:init"] + c["op:set_vec"]) >= 1;
  return true; }

static void write_file(const std::string &p, const std::string &t) { std::ofstream f(p); f << t; }

// C19, process shutdown: API calls made from an atexit handler that the application registered BEFORE its first MASA call (a "final report"
// hook) run while the registries must still be alive. The handler below walks both registries the way such a hook would.
static bool g_live[2] = {false, false};
template <class Scalar> static void final_report_t() { using namespace MASA; int P = sizeof(Scalar) > 8; if (!g_live[P]) return;
  masa_list_mms<Scalar>(); std::string nm; masa_get_name<Scalar>(&nm); masa_display_param<Scalar>(); (void)masa_sanity_check<Scalar>(); int d = 0; masa_get_dimension<Scalar>(&d);
  Scalar a[4] = {(Scalar)0.3, (Scalar)0.4, (Scalar)0.5, (Scalar)0.6}; for (auto &e : api_table<Scalar>()) { std::string sig = e.sig; if (sig.find('F') != std::string::npos) continue; (void)e.fn(a, 1, nullptr); }
  masa_init<Scalar>("registered at exit", "euler_1d"); (void)masa_eval_source_rho_u<Scalar>((Scalar)0.25); }
static void final_report() { try { final_report_t<double>(); final_report_t<long double>(); } catch (int) {} catch (...) {} }

int main(int argc, char **argv) {
  if (!freopen("/dev/null", "w", stdout)) {}
  if (const char *rf = arg_value(argc, argv, "--at-exit")) {   // nothing of the library has run yet: the handler is registered first
    (void)api_table<double>().size(); (void)api_table<long double>().size(); (void)capi_table().size();   // the harness's own function-local tables must outlive the handler: built first (they call nothing)
    atexit(final_report);
    std::ifstream f(rf); std::stringstream ss; ss << f.rdbuf(); std::vector<Op> ops; std::string prop; if (!history_from_text(ss.str(), ops, prop)) { fprintf(stderr, "not a history file\n"); return 2; }
    History H; H.cfg.catalogue = catalogue_for("C19", profile_for("C19"), 0); H.cfg.check_fresh = false; H.cfg.audit_every_step = false; H.cfg.c_interface = true; H.cfg.fatal_mode = 0;
    try { H.run(ops); } catch (int) {} catch (...) {}
    for (int P = 0; P < 2; P++) g_live[P] = H.reg[P].has_selected;
    fprintf(stderr, "history of %zu steps executed; leaving main with %zu + %zu live handles\n", ops.size(), H.reg[0].handles.size(), H.reg[1].handles.size());
    return 0; }       // no reset: the registries stay populated until the process ends
  if (const char *rf = arg_value(argc, argv, "--replay")) { std::ifstream f(rf); std::stringstream ss; ss << f.rdbuf(); std::vector<Op> ops; std::string prop; if (!history_from_text(ss.str(), ops, prop)) { fprintf(stderr, "not a history file\n"); return 2; }
    bool enumfile = prop.size() > 5 && prop.substr(prop.size() - 5) == "-enum"; if (enumfile) prop = prop.substr(0, prop.size() - 5);
    Profile pf = profile_for(prop); History H; int fm = atoi(arg_value(argc, argv, "--fatal-mode", "0")); H.cfg.catalogue = enumfile ? read_catalogue() : catalogue_for(prop, pf, fm); if (enumfile) pf.fresh = false;
    H.cfg.check_fresh = pf.fresh; H.cfg.audit_every_step = pf.audit; H.cfg.c_interface = true; H.cfg.fatal_mode = fm; try { H.run(ops); } catch (int e) { H.fail(prop, "the fatal error (" + std::to_string(e) + ") was raised by a call that is legal at this point of the history: " + (H.trace.empty() ? std::string("?") : H.trace.back())); } catch (...) { H.fail(prop, "an unexpected exception escaped from the library"); }
    for (size_t i = 0; i < H.trace.size(); i++) fprintf(stderr, "  %3zu %s\n", i + 1, H.trace[i].c_str());
    bool mine = false; for (auto &fl : H.fails) { fprintf(stderr, "  FAIL[%s] at step %d: %s\n", fl.prop.c_str(), fl.step, fl.msg.c_str()); if (fl.prop == prop) mine = true; } fprintf(stderr, "REPLAY %s\n", mine ? "violation" : "pass"); return mine ? 1 : 0; }
  if (const char *dir = arg_value(argc, argv, "--replay-many")) {   // Valgrind tier: every saved history in one process; only memory errors matter here
    std::vector<std::string> cat = catalogue_for("C19", profile_for("C19"), 0); int n = 0;
    for (int i = 0;; i++) { std::ifstream f(std::string(dir) + "/case_" + std::to_string(i) + ".case"); if (!f) break; std::stringstream ss; ss << f.rdbuf(); std::vector<Op> ops; std::string pr; if (!history_from_text(ss.str(), ops, pr)) continue; History H; H.cfg.catalogue = cat; H.cfg.check_fresh = true; H.run(ops); n++; }
    { Quiet q; MASA::masa_verif_reset(); } fprintf(stderr, "replayed %d histories\n", n); return 0; }
  if (const char *el = arg_value(argc, argv, "--exhaustive-len")) {   // C12: every sequence of length <= L over a 9-letter alphabet on 2 handles x 2 solution types, full audit after every step
    int L = atoi(el), shard = atoi(arg_value(argc, argv, "--shard", "0")), nshards = atoi(arg_value(argc, argv, "--nshards", "1")); std::string faildir = arg_value(argc, argv, "--faildir", "."); stats().path = arg_value(argc, argv, "--out", ""); mkdir(faildir.c_str(), 0755); Stats &st = stats();
    std::vector<std::string> cat = read_catalogue(); cat.erase(std::remove_if(cat.begin(), cat.end(), [](const std::string &s) { return s == "masa_test_function" || s == "masa_uninit"; }), cat.end());
    auto idx_of = [&](const std::string &n) { return (int)(std::find(cat.begin(), cat.end(), n) - cat.begin()); }; int X = idx_of("euler_1d"), Y = idx_of("heateq_1d_steady_const");
    const char *letters[9] = {"init(a,euler_1d)", "init(b,euler_1d)", "init(a,heateq_1d_steady_const)", "select(a)", "select(b)", "set(first parameter, 2.5)", "set(second parameter, -7)", "init_param", "init<long double>(a,euler_1d)"};
    // letter -> operation record against the current model state; returns false when the letter is not applicable (select of an absent handle)
    auto make = [&](int letter, History &H, Op &o) -> bool { o = Op(); Registry &R = H.reg[0]; auto pos = [&](const std::string &h) { int k = 0; for (auto &kv : R.handles) { if (kv.first == h) return k; k++; } return -1; };
      switch (letter) { case 0: o.code = OP_INIT; o.h = 0; o.s = X; return true; case 1: o.code = OP_INIT; o.h = 1; o.s = X; return true; case 2: o.code = OP_INIT; o.h = 0; o.s = Y; return true;
        case 3: case 4: { int k = pos(letter == 3 ? "a" : "b"); if (k < 0) return false; o.code = OP_SELECT; o.h = k; return true; }
        case 5: if (!R.has_selected) return false; o.code = OP_SET; o.p = 0; o.n = 1; o.v[0] = 9 + 11 * 256; return true;       // decode_value kind 9 -> a value in (0.5, 3)
        case 6: if (!R.has_selected) return false; o.code = OP_SET; o.p = 1; o.n = 1; o.v[0] = 0 + 11 * 3 * 256; return true;   // kind 0 -> small integer
        case 7: if (!R.has_selected) return false; o.code = OP_INITP; return true;
        default: o.code = OP_INIT; o.prec = 1; o.h = 0; o.s = X; return true; } };
    long long total = 0, mine = 0, violations = 0; std::vector<int> seq;
    std::function<void(int)> rec = [&](int depth) { if (!seq.empty()) { long long id = total++; if (id % nshards == shard) { mine++;
          History H; H.cfg.catalogue = cat; H.cfg.check_fresh = false; H.cfg.audit_every_step = true; H.reset_library(); std::vector<Op> ops; bool applicable = true;
          for (int l : seq) { Op o; if (!make(l, H, o)) { applicable = false; break; } ops.push_back(o); H.run_step(o); if (H.failed()) break; }
          if (applicable) { st.count("cases"); st.count("evaluations", (long long)ops.size()); st.count("class:exhaustive_sequence_len=" + std::to_string(seq.size())); Hasher h; for (int l : seq) h.i64(l); if (seq.size() >= 3) { st.distinct.insert(h.h); st.count("class:H:nontrivial"); }
            if (st.samples.size() < 4 && mine % 4001 == 1) { std::string j = "{\"exhaustive_sequence\":["; for (size_t i = 0; i < seq.size(); i++) j += std::string(i ? "," : "") + "\"" + letters[seq[i]] + "\""; st.sample(j + "]}"); }
            for (auto &fl : H.fails) if (fl.prop == "C12" && violations == 0) { violations++; std::string note = "exhaustive sequence, step " + std::to_string(fl.step) + ": " + fl.msg; write_file(faildir + "/fail_C12.case", history_to_text(ops, "C12", note)); st.findings.push_back("{\"violation\":true,\"sub\":\"" + jesc(note.substr(0, 400)) + "\",\"file\":\"" + jesc(faildir + "/fail_C12.case") + "\"}"); } } } }
      if (depth == L) return; for (int l = 0; l < 9; l++) { seq.push_back(l); rec(depth + 1); seq.pop_back(); } };
    rec(0); st.count("exhaustive_sequences_total", total); st.flush(); return violations ? 1 : 0; }
  if (const char *en = arg_value(argc, argv, "--enumerate")) {   // exhaustive pass: every (solution, scalar type, C++ overload) for C15 / every (solution, C entry point) for C17, once each, at two argument sets
    std::string prop = en; std::string faildir = arg_value(argc, argv, "--faildir", "."); stats().path = arg_value(argc, argv, "--out", ""); mkdir(faildir.c_str(), 0755); Stats &st = stats(); Profile pf = profile_for(prop);
    std::vector<std::string> cat = read_catalogue(); int shard = atoi(arg_value(argc, argv, "--shard", "0")), nshards = atoi(arg_value(argc, argv, "--nshards", "1")); int violations = 0; long pair = 0;
    size_t nfn = prop == "C17" ? capi_table().size() : api_table<double>().size();
    for (size_t si = 0; si < cat.size(); si++) for (int prec = 0; prec < (prop == "C17" ? 1 : 2); prec++) for (size_t fi = 0; fi < nfn; fi++) for (int rep = 0; rep < 2; rep++) { if (pair++ % nshards != shard) continue;
      std::vector<Op> ops; Op i0; i0.code = OP_INIT; i0.prec = prec; i0.h = 0; i0.s = (int)si; ops.push_back(i0);
      Op e; e.code = prop == "C17" ? OP_CEVAL : OP_EVAL; e.prec = prec; e.api = (int)fi; e.n = 0; /* n % 3 == 0: take exactly this overload */ e.idx = rep ? 5 : 9; for (int k = 0; k < 4; k++) e.v[k] = mix64(1000 * si + 10 * fi + rep + 7 * k) | 3; ops.push_back(e);
      HistConfig cfg; cfg.escape_prop = prop; cfg.catalogue = cat; cfg.check_fresh = false; Forked H = run_forked(ops, cfg);
      if (H.signal || !H.ok) { Failure f; f.prop = prop; f.step = 2; f.msg = "the library ended the process (" + std::to_string(H.signal) + ")"; H.fails.push_back(f); }
      st.count("cases"); st.count("evaluations", H.step); st.count("class:enumerated_pairs"); for (auto &kv : H.cls) st.count("class:" + kv.first, kv.second); { Hasher h; h.i64((long)si); h.i64(prec); h.i64((long)fi); h.i64(rep); st.distinct.insert(h.h); }
      if (st.samples.size() < 3 && pair % 1999 == 1 && H.trace.size() > 1) st.sample("{\"enumerated\":\"" + jesc(H.trace[1]) + "\"}");
      for (auto &fl : H.fails) if (fl.prop == prop && violations < 1) { violations++; std::string note = "enumeration: " + (H.trace.size() > 1 ? H.trace[1] : std::string("?")) + ": " + fl.msg; write_file(faildir + "/fail_" + prop + ".case", history_to_text(ops, prop + "-enum", note)); st.findings.push_back("{\"violation\":true,\"sub\":\"" + jesc(note.substr(0, 400)) + "\",\"file\":\"" + jesc(faildir + "/fail_" + prop + ".case") + "\"}"); } }
    st.flush(); return violations ? 1 : 0; }
  int dump_n = atoi(arg_value(argc, argv, "--dump", "0")); std::string dump_dir = arg_value(argc, argv, "--dump-dir", ".");
  std::string prop = arg_value(argc, argv, "--prop", "C11"); uint64_t seed = strtoull(arg_value(argc, argv, "--seed", "1"), 0, 10); int cases = atoi(arg_value(argc, argv, "--cases", "100")); int maxsize = atoi(arg_value(argc, argv, "--maxsize", "100"));
  std::string faildir = arg_value(argc, argv, "--faildir", "."); stats().path = arg_value(argc, argv, "--out", ""); mkdir(faildir.c_str(), 0755); Stats &st = stats();
  int fatal_mode = atoi(arg_value(argc, argv, "--fatal-mode", "0"));
  Profile pf = profile_for(prop); std::vector<std::string> cat = read_catalogue(); std::vector<std::string> use = catalogue_for(prop, pf, fatal_mode);
  st.count("catalogue_entries", (long long)cat.size());
  long budget = -1; int failures = 0;
  rc::detail::TestParams tp; tp.seed = mix64(seed ^ 0x5eed); tp.maxSuccess = cases; tp.maxSize = maxsize; rc::detail::TestMetadata md; md.id = prop + ":histories"; md.description = md.id;
  auto fn = [&]() { if (budget == 0) return; if (budget > 0) budget--;
    auto raw = *rc::gen::container<std::vector<std::vector<uint64_t>>>(rc::gen::container<std::vector<uint64_t>>(6, rc::gen::resize(rc::kNominalSize, rc::gen::arbitrary<uint64_t>())));
    std::vector<Op> ops; for (auto &r : raw) ops.push_back(decode(r, pf, prop));
    write_file(faildir + "/current.case", history_to_text(ops, prop));
    if (dump_n > 0 && (int)st.counters["dumped"] < dump_n && ops.size() >= 5) { write_file(dump_dir + "/case_" + std::to_string(st.counters["dumped"]) + ".case", history_to_text(ops, prop)); st.count("dumped"); }
    HistConfig cfg; cfg.escape_prop = prop; cfg.catalogue = use; cfg.check_fresh = pf.fresh; cfg.audit_every_step = pf.audit; cfg.fatal_mode = fatal_mode; Forked H = run_forked(ops, cfg);
    if (H.signal == SIGALRM) { st.count("inconclusive_child_timeouts"); return; }
    if (H.signal || !H.ok) { Failure f; f.prop = prop; f.step = -1; f.msg = "the library ended the process while executing this history (" + std::string(H.signal >= 1000 ? "exit status " + std::to_string(H.signal - 1000) : "signal " + std::to_string(H.signal)) + ")"; H.fails.push_back(f); st.count("crashed_histories"); }
    st.count("cases"); st.count("steps", H.step); st.count("evaluations", H.step); st.count("evaluator_calls", H.evals);
    for (auto &kv : H.cls) st.count("class:" + kv.first, kv.second); if (ops.size() >= 20) st.count("class:H:length>=20");
    bool nt = nontrivial(prop, H.cls); if (nt) { st.count("class:H:nontrivial"); Hasher h; for (auto &o : ops) h.str(op_to_text(o)); st.distinct.insert(h.h); }
    if (nt && H.trace.size() >= 3 && st.samples.size() < st.max_samples && st.counters["cases"] % 37 == 1) { std::string j = "{\"history\":["; for (size_t i = 0; i < H.trace.size() && i < 40; i++) j += std::string(i ? "," : "") + "\"" + jesc(H.trace[i]) + "\""; st.sample(j + "],\"steps\":" + std::to_string(H.step) + "}"); }
    const Failure *mine = nullptr; for (auto &fl : H.fails) { if (fl.prop == prop) mine = &fl; else st.count("other_property_failures:" + fl.prop); }
    if (mine) { std::string note = "step " + std::to_string(mine->step) + ": " + mine->msg; write_file(faildir + "/fail_" + prop + ".case", history_to_text(ops, prop, note)); write_file(faildir + "/fail_" + prop + ".txt", note); if (budget < 0) budget = 600; RC_FAIL(note); } };
  auto result = rc::detail::checkTestable(fn, md, tp);
  if (!result.template is<rc::detail::SuccessResult>()) { failures++; std::ostringstream msg; rc::detail::printResultMessage(result, msg); std::ifstream t(faildir + "/fail_" + prop + ".txt"); std::stringstream note; note << t.rdbuf();
    st.findings.push_back("{\"violation\":true,\"sub\":\"" + jesc(note.str().substr(0, 400)) + "\",\"file\":\"" + jesc(faildir + "/fail_" + prop + ".case") + "\",\"rapidcheck\":\"" + jesc(msg.str().substr(0, 200)) + "\"}"); }
  st.flush(); return failures ? 1 : 0;
}
