// C13 oracle shared by the rapidcheck driver (names_main.cpp) and the libFuzzer target (fuzz_names.cpp)
#pragma once
#include "hist.hpp"
using namespace MASA;
static std::vector<std::string> read_catalogue(bool ld) { Quiet q; if (ld) masa_printid<long double>(); else masa_printid<double>(); std::vector<std::string> out; std::stringstream ss(q.str()); std::string l; int bars = 0;
  while (std::getline(ss, l)) { if (l.find("*-----") != std::string::npos) { bars++; continue; } if (bars == 1 && !l.empty()) out.push_back(l); } return out; }
// the reference normaliser: lower-case, delete every '-' and every ' ', nothing else
static std::string norm(const std::string &s) { std::string o; for (unsigned char c : s) { if (c == '-' || c == ' ') continue; o += (c >= 'A' && c <= 'Z') ? char(c + 32) : char(c); } return o; }
static std::string listing(int prec) { Quiet q; if (prec) masa_list_mms<long double>(); else masa_list_mms<double>(); return q.str(); }
static std::string show(const std::string &s) { std::string o; for (unsigned char c : s) { if (c < 0x20 || c >= 0x7f) { char b[8]; snprintf(b, sizeof b, "\\x%02x", c); o += b; } else o += c; } return o; }
static void write_file(const std::string &p, const std::string &t) { std::ofstream f(p, std::ios::binary); f << t; }

// one C13 case: returns "" when the oracle is satisfied
inline std::string c13_case(const std::vector<std::string> &cat, const std::string &handle, const std::string &s, int prec, std::map<std::string, long> &cls) {
  // every second case initialises the handle of the case beforehand (with another solution), so that the call under test re-uses a live handle:
  // a rejected name must leave that registration alone as well
  bool reuse = (handle.size() + s.size()) % 2 == 0; if (reuse) cls["handle_already_registered"]++;
  // one case in three has a live handle spelled exactly like the string under test: the string only picks the catalogue entry, it must not reach
  // any handle of that spelling (handles are used verbatim and are a separate name space)
  bool twin = !reuse ? (handle.size() + 2 * s.size()) % 3 == 0 && s != handle && s != "pre-existing" : false; if (twin) cls["live_handle_spelled_like_the_name"]++;
  { Quiet q; masa_verif_reset(); if (prec) masa_init<long double>("pre-existing", cat[3]); else masa_init<double>("pre-existing", cat[3]);
    if (twin) { if (prec) masa_init<long double>(s, cat[7]); else masa_init<double>(s, cat[7]); }
    if (reuse) { if (prec) masa_init<long double>(handle, cat[5]); else masa_init<double>(handle, cat[5]); } }
  std::string before = listing(prec); std::string n = norm(s); bool known = std::find(cat.begin(), cat.end(), n) != cat.end();
  auto twin_ok = [&]() -> std::string { if (!twin) return ""; std::string nm; bool t2 = false; { Quiet q; try { if (prec) { masa_select_mms<long double>(s); masa_get_name<long double>(&nm); } else { masa_select_mms<double>(s); masa_get_name<double>(&nm); } } catch (int) { t2 = true; } }
    if (t2 || nm != cat[7]) return "masa_init(h, \"" + show(s) + "\") damaged the live handle that happens to be spelled like that string (it " + (t2 ? std::string("can no longer be selected") : "now reports '" + show(nm) + "'") + ")"; return ""; };
  bool threw = false; int code = 0; std::string out; { Quiet q; try { if (prec) masa_init<long double>(handle, s); else masa_init<double>(handle, s); } catch (int e) { threw = true; code = e; } out = q.str(); }
  if (known) { cls["resolves"]++; if (threw) return "masa_init(h, \"" + show(s) + "\") is a fatal error although the string normalises to the catalogue name " + n;
    std::string nm; { Quiet q; if (prec) masa_get_name<long double>(&nm); else masa_get_name<double>(&nm); } if (nm != n) return "masa_init(h, \"" + show(s) + "\") selected '" + nm + "' instead of " + n;
    std::string after = listing(prec); if (after.find(handle + " : " + n + "\n") == std::string::npos) return "handle '" + show(handle) + "' is not listed verbatim after masa_init"; return twin_ok(); }
  cls["rejects"]++;
  if (!threw) { std::string nm; { Quiet q; if (prec) masa_get_name<long double>(&nm); else masa_get_name<double>(&nm); } return "masa_init(h, \"" + show(s) + "\") succeeded (selected " + nm + ") although the string does not normalise to a catalogue name"; }
  if (code != 1) return "fatal error of masa_init threw " + std::to_string(code);
  if (out.find("MASA FATAL ERROR") == std::string::npos) return "rejected name without 'MASA FATAL ERROR'";
  if (listing(prec) != before) return "a rejected masa_init(h, \"" + show(s) + "\") changed the registry";
  if (reuse) { std::string nm; bool t2 = false; { Quiet q; try { if (prec) { masa_select_mms<long double>(handle); masa_get_name<long double>(&nm); } else { masa_select_mms<double>(handle); masa_get_name<double>(&nm); } } catch (int) { t2 = true; } }
    if (t2 || nm != cat[5]) return "after a rejected masa_init(h, \"" + show(s) + "\") the solution previously registered under h is no longer reachable"; }
  return twin_ok(); }

struct C13Case { std::string handle, s; int prec; };
static std::string c13_text(const C13Case &c) { std::string t = "verif-c13case 1\nprec " + std::to_string(c.prec) + "\nhandle " + std::to_string(c.handle.size()); for (unsigned char ch : c.handle) t += " " + std::to_string((int)ch); t += "\nname " + std::to_string(c.s.size()); for (unsigned char ch : c.s) t += " " + std::to_string((int)ch); return t + "\n# name as text: " + show(c.s) + "\n"; }
static bool c13_parse(const std::string &t, C13Case &c) { std::istringstream in(t); std::string k; bool ok = false; while (in >> k) { if (k == "verif-c13case") { int v; in >> v; ok = true; } else if (k == "prec") in >> c.prec; else if (k == "handle" || k == "name") { size_t n; in >> n; std::string s; for (size_t i = 0; i < n; i++) { int b; in >> b; s += char(b); } (k == "handle" ? c.handle : c.s) = s; } else if (k == "#") { std::string rest; std::getline(in, rest); } } return ok; }

