#pragma once
#include <string>
#include <vector>
struct MirrorMismatch { std::string cname, cxx_id; int idx = 0; double c = 0, cxx = 0; };
// want_grad: 0 = everything but gradients, 1 = gradients only, 2 = all
std::vector<MirrorMismatch> c_mirror(const double *pt, int nargs, int want_grad, double (*cb)(double), long *compared = nullptr);
