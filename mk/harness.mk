# Harness objects depend only on the generated public header; binaries are re-linked against the
# freshly rebuilt library archive of the requested variant.
REPO ?= /repo
B    ?= /verif/build
GEN  := $(B)/gen
E    := /verif/engine
HO   := $(B)/obj
BIN  := $(B)/bin

CXX  := g++
CXXF := -std=gnu++17 -O1 -g -w -I$(GEN) -I$(E) -DMASA_VERIF
EHDR := $(wildcard $(E)/*.hpp)

$(HO)/%.o: $(E)/%.cpp $(EHDR) $(GEN)/masa.h
	@mkdir -p $(HO)
	$(CXX) $(CXXF) -c $< -o $@

NUM_OBJS := $(HO)/specs.o $(HO)/numcase.o

$(BIN)/num.%: $(HO)/num_main.o $(NUM_OBJS) $(B)/lib/%/libmasa.a
	@mkdir -p $(BIN)
	$(CXX) -o $@ $(HO)/num_main.o $(NUM_OBJS) $(B)/lib/$*/libmasa.a -lrapidcheck -lquadmath

.SECONDARY:

$(BIN)/c20.%: $(HO)/c20_main.o $(NUM_OBJS) $(B)/lib/%/libmasa.a
	@mkdir -p $(BIN)
	$(CXX) -o $@ $(HO)/c20_main.o $(NUM_OBJS) $(B)/lib/$*/libmasa.a -lrapidcheck -lquadmath
