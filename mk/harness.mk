# Harness objects depend only on the generated public header; binaries are re-linked against the
# freshly rebuilt library archive of the requested variant.
REPO ?= /repo
B    ?= /verif/build
GEN  := $(B)/gen
E    := /verif/engine
HO   := $(B)/obj
BIN  := $(B)/bin

CXX  := g++
CXXF := -std=gnu++17 -O1 -g -w -I$(GEN) -I$(E) -DMASA_VERIF
EHDR := $(wildcard $(E)/*.hpp)

$(HO)/%.o: $(E)/%.cpp $(EHDR) $(GEN)/masa.h
	@mkdir -p $(HO)
	$(CXX) $(CXXF) -c $< -o $@

NUM_OBJS := $(HO)/specs.o $(HO)/numcase.o $(HO)/cmirror.o
$(HO)/cmirror.o: $(GEN)/api_gen.hpp

$(BIN)/num.%: $(HO)/num_main.o $(NUM_OBJS) $(B)/lib/%/libmasa.a
	@mkdir -p $(BIN)
	$(CXX) -o $@ $(HO)/num_main.o $(NUM_OBJS) $(B)/lib/$*/libmasa.a -lrapidcheck -lquadmath

.SECONDARY:

$(BIN)/c20.%: $(HO)/c20_main.o $(NUM_OBJS) $(B)/lib/%/libmasa.a
	@mkdir -p $(BIN)
	$(CXX) -o $@ $(HO)/c20_main.o $(NUM_OBJS) $(B)/lib/$*/libmasa.a -lrapidcheck -lquadmath

# ---- history engine (built against the exception-enabled library: misuse throws int instead of exit(1))
$(GEN)/api_gen.hpp: $(REPO)/src/masa.h.in $(REPO)/src/cmasa.cpp /verif/tools/gen_api.py
	@mkdir -p $(GEN)
	python3 /verif/tools/gen_api.py $(REPO) $@.tmp && (cmp -s $@.tmp $@ || cp $@.tmp $@)
$(GEN)/capspec_gen.cpp: /verif/spec/capabilities.json /verif/tools/gen_capspec.py
	@mkdir -p $(GEN)
	python3 /verif/tools/gen_capspec.py /verif/spec/capabilities.json $@
$(HO)/hist_main.o $(HO)/capspec_gen.o: $(GEN)/api_gen.hpp
$(HO)/capspec_gen.o: $(GEN)/capspec_gen.cpp $(EHDR) $(GEN)/masa.h
	@mkdir -p $(HO)
	$(CXX) $(CXXF) -c $< -o $@
$(BIN)/hist.%: $(HO)/hist_main.o $(HO)/capspec_gen.o $(B)/lib/%/libmasa.a
	@mkdir -p $(BIN)
	$(CXX) -o $@ $(HO)/hist_main.o $(HO)/capspec_gen.o $(B)/lib/$*/libmasa.a -lrapidcheck

$(HO)/names_main.o: $(GEN)/api_gen.hpp
$(BIN)/names.%: $(HO)/names_main.o $(HO)/capspec_gen.o $(B)/lib/%/libmasa.a
	@mkdir -p $(BIN)
	$(CXX) -o $@ $(HO)/names_main.o $(HO)/capspec_gen.o $(B)/lib/$*/libmasa.a -lrapidcheck

# ---- C19: sanitizer builds (clang; harness objects instrumented too) and the live-byte accounting
HOA  := $(B)/obj_asan
CLX  := clang++
CLXF := -std=gnu++17 -O1 -g -w -I$(GEN) -I$(E) -DMASA_VERIF -fsanitize=address,undefined -fno-sanitize-recover=undefined -fno-omit-frame-pointer
$(HOA)/%.o: $(E)/%.cpp $(EHDR) $(GEN)/masa.h $(GEN)/api_gen.hpp
	@mkdir -p $(HOA)
	$(CLX) $(CLXF) -c $< -o $@
$(HOA)/capspec_gen.o: $(GEN)/capspec_gen.cpp $(EHDR) $(GEN)/masa.h $(GEN)/api_gen.hpp
	@mkdir -p $(HOA)
	$(CLX) $(CLXF) -c $< -o $@
$(HOA)/fuzz_hist.o: $(E)/fuzz_hist.cpp $(EHDR) $(GEN)/masa.h $(GEN)/api_gen.hpp
	@mkdir -p $(HOA)
	$(CLX) $(CLXF) -fsanitize=fuzzer-no-link -c $< -o $@
$(BIN)/fuzz_hist.asanexc: $(HOA)/fuzz_hist.o $(HOA)/capspec_gen.o $(B)/lib/asanexc/libmasa.a
	@mkdir -p $(BIN)
	$(CLX) -fsanitize=fuzzer,address,undefined -o $@ $(HOA)/fuzz_hist.o $(HOA)/capspec_gen.o $(B)/lib/asanexc/libmasa.a
$(BIN)/hist.asanexc: $(HOA)/hist_main.o $(HOA)/capspec_gen.o $(B)/lib/asanexc/libmasa.a
	@mkdir -p $(BIN)
	$(CLX) -fsanitize=address,undefined -o $@ $(HOA)/hist_main.o $(HOA)/capspec_gen.o $(B)/lib/asanexc/libmasa.a -lrapidcheck
$(BIN)/leak.%: $(HO)/leak_main.o $(B)/lib/%/libmasa.a
	@mkdir -p $(BIN)
	$(CXX) -o $@ $(HO)/leak_main.o $(B)/lib/$*/libmasa.a -lrapidcheck

$(HOA)/fuzz_names.o: $(E)/fuzz_names.cpp $(EHDR) $(GEN)/masa.h $(GEN)/api_gen.hpp
	@mkdir -p $(HOA)
	$(CLX) $(CLXF) -fsanitize=fuzzer-no-link -c $< -o $@
$(BIN)/fuzz_names.asanexc: $(HOA)/fuzz_names.o $(HOA)/capspec_gen.o $(B)/lib/asanexc/libmasa.a
	@mkdir -p $(BIN)
	$(CLX) -fsanitize=fuzzer,address,undefined -o $@ $(HOA)/fuzz_names.o $(HOA)/capspec_gen.o $(B)/lib/asanexc/libmasa.a
