# Builds the library objects of the tree under test (REPO) in several variants.
# Usage: make -f mk/lib.mk VARIANT=base|exc|opt|asan  [REPO=/repo]
REPO    ?= /repo
VARIANT ?= base
B       ?= /verif/build
O       := $(B)/lib/$(VARIANT)
GEN     := $(B)/gen

SRCS := $(shell awk '{ if (sub(/\\$$/,"")) { buf = buf $$0; next } print buf $$0; buf="" }' $(REPO)/src/Makefile.am | sed -n 's/^cc_sources[ \t]*+\{0,1\}=[ \t]*//p' | tr -s ' \t' '\n' | grep '\.cpp$$' | sort -u)
OBJS := $(SRCS:%.cpp=$(O)/%.o)

CXX_base := g++
FLG_base := -O0 -g
CXX_exc  := g++
FLG_exc  := -O0 -g -DMASA_EXCEPTIONS
CXX_opt  := g++
FLG_opt  := -O2
CXX_asan := clang++
FLG_asan := -O1 -g -fsanitize=address,undefined,fuzzer-no-link -fno-sanitize-recover=undefined -fno-omit-frame-pointer
CXX_asanexc := clang++
FLG_asanexc := -O1 -g -DMASA_EXCEPTIONS -fsanitize=address,undefined,fuzzer-no-link -fno-sanitize-recover=undefined -fno-omit-frame-pointer
CXX_pic  := g++
FLG_pic  := -O0 -g -fPIC

CXX := $(CXX_$(VARIANT))
FLG := $(FLG_$(VARIANT)) -std=gnu++17 -w -DHAVE_CONFIG_H -DMASA_VERIF -I$(GEN) -I$(REPO)/src

all: $(O)/libmasa.a

# masa.h: the @VAR@ substitution configure performs (values are irrelevant to the API)
$(GEN)/masa.h.tmp: FORCE
	@mkdir -p $(GEN)
	@sed -e 's/@GENERIC_MAJOR_VERSION@/0/;s/@GENERIC_MINOR_VERSION@/51/;s/@GENERIC_MICRO_VERSION@/1/' -e 's/@[A-Z_]*@/verif/g' $(REPO)/src/masa.h.in > $@
$(GEN)/masa.h: $(GEN)/masa.h.tmp
	@cmp -s $< $@ || cp $< $@
$(GEN)/config.h:
	@mkdir -p $(GEN)
	@printf '#define PACKAGE "masa"\n#define VERSION "verif"\n#define BUILD_VERSION "verif"\n#define BUILD_DEVSTATUS "verif"\n#define BUILD_ARCH "verif"\n#define BUILD_HOST "verif"\n#define BUILD_USER "verif"\n#define BUILD_DATE "verif"\n' > $@

HDRS := $(wildcard $(REPO)/src/*.h $(REPO)/src/*.hpp)

$(O)/%.o: $(REPO)/src/%.cpp $(HDRS) $(GEN)/masa.h $(GEN)/config.h
	@mkdir -p $(O)
	$(CXX) $(FLG) -c $< -o $@

$(O)/libmasa.a: $(OBJS)
	@rm -f $@
	@ar rcs $@ $(OBJS)

FORCE:
.PHONY: all FORCE
