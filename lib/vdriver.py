"""Common driver for every check: build, fan out workers, merge statistics, triage failures,
match known findings, write and validate the evidence file.

A check is described by a dict (see bin/check):
  id, variants (library builds needed), bins (harness binaries), workers(tier, seed) -> list of
  (argv, outfile, faildir), replay_argv(path), rule, assumptions, level ...
"""
import fcntl
import hashlib
import json
import os
import shutil
import subprocess
import sys
import time

ROOT = "/verif"
REPO = os.path.abspath(os.environ.get("VERIF_REPO", "/repo"))
# one build directory per tree under test, so that objects of a scratch tree never pass for objects of /repo
BUILD = os.path.join(ROOT, "build") if REPO == "/repo" else os.path.join(ROOT, "build_alt", hashlib.md5(REPO.encode()).hexdigest()[:10])
NPROC = os.cpu_count() or 4


# glibc fills every malloc'd block with this byte pattern: reads of uninitialised heap memory then behave the same in a
# worker process and in the fresh process that replays its case, instead of depending on what the heap held before
os.environ.setdefault("MALLOC_PERTURB_", "165")


def _limits_for(argv):
    """Non-sanitizer harness processes get an 8 GB address-space limit: a library that walks freed memory can otherwise try to allocate
    tens of gigabytes (seen with a seeded use-after-free) and stall the whole check; with the limit it fails fast with bad_alloc."""
    exe = os.path.basename(argv[0])
    if "asan" in exe or exe in ("sh", "valgrind", "bash") or exe.startswith("python"):
        return None
    import resource

    def fn():
        resource.setrlimit(resource.RLIMIT_AS, (8 << 30, 8 << 30))
    return fn


def log(*a):
    print(*a, file=sys.stderr, flush=True)


def die(msg, code=2):
    """Harness / build problems are not verdicts: exit 2, never a VIOLATION line."""
    log(msg)
    sys.exit(code)


def mix(seed, i):
    h = hashlib.sha256(f"{seed}:{i}".encode()).digest()
    return int.from_bytes(h[:8], "little") >> 1


def _drop_stale_objects(variant):
    """make compares time stamps; a source restored with an older time stamp would go unnoticed. Compare content
    hashes with the ones recorded at the last build of this variant and delete what is out of date."""
    src = os.path.join(REPO, "src")
    cur = {}
    for fn in sorted(os.listdir(src)):
        if fn.endswith((".cpp", ".h", ".hpp", ".in", ".am")) and fn != "masa.h":
            with open(os.path.join(src, fn), "rb") as f:
                cur[fn] = hashlib.sha256(f.read()).hexdigest()
    odir = os.path.join(BUILD, "lib", variant)
    stamp = os.path.join(odir, "sources.sha256.json")
    old = {}
    if os.path.exists(stamp):
        try:
            old = json.load(open(stamp))
        except Exception:
            old = {}
    if os.path.isdir(odir):
        hdr_changed = any(old.get(k) != v for k, v in cur.items() if not k.endswith(".cpp")) or any(k not in cur for k in old if not k.endswith(".cpp"))
        for fn in os.listdir(odir):
            if fn.endswith(".o"):
                base = fn[:-2] + ".cpp"
                if hdr_changed or old.get(base) != cur.get(base):
                    os.unlink(os.path.join(odir, fn))
    return stamp, cur


def build(variants, bins):
    """(Re)build library variants from the working tree under test and re-link the harness binaries."""
    os.makedirs(BUILD, exist_ok=True)
    t0 = time.time()
    with open(os.path.join(BUILD, ".lock"), "w") as lk:
        fcntl.flock(lk, fcntl.LOCK_EX)
        for v in variants:
            stamp, cur = _drop_stale_objects(v)
            r = subprocess.run(["make", "-f", os.path.join(ROOT, "mk/lib.mk"), f"VARIANT={v}", f"REPO={REPO}", f"B={BUILD}", f"-j{NPROC}"],
                               cwd=ROOT, stdout=subprocess.PIPE, stderr=subprocess.STDOUT, text=True)
            if r.returncode != 0:
                log(r.stdout[-4000:])
                die(f"BUILD-ERROR: library variant {v} does not compile (exit {r.returncode}); this is a build failure, not a verdict")
            with open(stamp, "w") as f:
                json.dump(cur, f)
        if bins:
            r = subprocess.run(["make", "-f", os.path.join(ROOT, "mk/harness.mk"), f"REPO={REPO}", f"B={BUILD}", f"-j{NPROC}"] + [os.path.join(BUILD, "bin", b) for b in bins],
                               cwd=ROOT, stdout=subprocess.PIPE, stderr=subprocess.STDOUT, text=True)
            if r.returncode != 0:
                log(r.stdout[-6000:])
                die(f"BUILD-ERROR: harness does not build/link against the tree (exit {r.returncode})")
    return time.time() - t0


def run_parallel(jobs, timeout):
    """jobs: list of dict(argv, out, faildir, env). Returns list of (job, returncode, stderr_tail)."""
    procs = []
    results = []
    pending = list(jobs)
    running = []
    deadline = time.time() + timeout
    while pending or running:
        while pending and len(running) < NPROC:
            j = pending.pop(0)
            os.makedirs(j["faildir"], exist_ok=True)
            env = dict(os.environ)
            env.update(j.get("env", {}))
            errf = open(os.path.join(j["faildir"], "stderr.txt"), "w")
            p = subprocess.Popen(j["argv"], cwd=ROOT, stdout=subprocess.DEVNULL, stderr=errf, env=env, preexec_fn=_limits_for(j["argv"]))
            running.append((j, p, errf))
        time.sleep(0.05)
        still = []
        for j, p, errf in running:
            rc = p.poll()
            if rc is None:
                if time.time() > deadline:
                    p.kill()
                    p.wait()
                    errf.close()
                    results.append((j, "timeout"))
                else:
                    still.append((j, p, errf))
            else:
                errf.close()
                results.append((j, rc))
        running = still
    return results


# Half of the workers run in an environment that names a locale which is not installed (a forwarded LANG on a minimal node): the library
# must not depend on it. Replays try both environments, so a failure found there reproduces.
ODD_ENV = {"LANG": "xx_XX.UTF-8", "LC_ALL": "xx_XX.UTF-8"}


def _replay_envs():
    e0 = dict(os.environ)
    e0.pop("LC_ALL", None)
    e1 = dict(os.environ)
    e1.update(ODD_ENV)
    return [e0, e1]


def _job_reported_violation(j):
    try:
        st = json.load(open(j["out"]))
    except Exception:
        return False
    return any(f.get("violation") for f in st.get("findings", []))


def merge_stats(files):
    counters, maxima, distinct, samples, findings = {}, {}, set(), [], []
    for f in files:
        try:
            s = json.load(open(f))
        except Exception:
            continue
        for k, v in s.get("counters", {}).items():
            counters[k] = counters.get(k, 0) + v
        for k, v in s.get("maxima", {}).items():
            maxima[k] = max(maxima.get(k, v), v)
        distinct.update(s.get("distinct", []))
        samples.extend(s.get("samples", []))
        findings.extend(s.get("findings", []))
    return counters, maxima, distinct, samples, findings


def load_known():
    p = os.path.join(ROOT, "known_findings.json")
    if not os.path.exists(p):
        return {"findings": [], "fixed": []}
    return json.load(open(p))


def validate_evidence(path):
    schema = "/root/.vp/EVIDENCE.schema.json"
    if not os.path.exists(schema):
        schema = os.path.join(ROOT, "spec/EVIDENCE.schema.json")
    if not os.path.exists(schema):
        return
    code = ("import json,sys,jsonschema; jsonschema.validate(json.load(open(sys.argv[1])), json.load(open(sys.argv[2])))")
    for py in (sys.executable, "python3-vt", "/opt/veriftools/pyvenv/bin/python"):
        try:
            r = subprocess.run([py, "-c", code, path, schema], capture_output=True, text=True)
        except FileNotFoundError:
            continue
        if r.returncode == 0:
            return
        if "No module named" in r.stderr:
            continue
        die("EVIDENCE-ERROR: evidence file does not validate:\n" + r.stderr[-2000:])


def run_check(chk, tier, seed, replay=None):
    pid = chk["id"]
    t0 = time.time()
    vf = chk.get("variants_for")
    variants, bins = vf(tier) if vf and not replay else (chk["variants"], chk["bins"])
    bt = build(variants, bins)
    if replay:
        rcs = []
        for argv, env in [(a, e) for a in chk["replay_argv"](replay) for e in _replay_envs()]:
            try:
                r = subprocess.run(argv, cwd=ROOT, stdout=subprocess.DEVNULL, stderr=subprocess.PIPE, text=True, timeout=600, preexec_fn=_limits_for(argv), env=env)
                sys.stderr.write(r.stderr[-3000:])
                rcs.append(r.returncode)
            except subprocess.TimeoutExpired:
                log("replay did not terminate within 10 minutes")
                rcs.append(1)
        bad = any(rc in (1, 3) or rc < 0 or rc > 3 for rc in rcs)
        if bad:
            print(f"VIOLATION property={pid} replay={replay}")
            return 1
        print(f"replay passes: property={pid} replay={replay}")
        return 0

    work = os.path.join(BUILD, "work", pid)
    shutil.rmtree(work, ignore_errors=True)
    if os.path.exists(work):            # leftovers of an interrupted run that could not be removed: use a fresh sibling directory
        work = work + "." + str(os.getpid())
        shutil.rmtree(work, ignore_errors=True)
    os.makedirs(work, exist_ok=True)
    # replay tier: counterexamples saved from earlier findings and seeded changes (committed under regress/<id>/) are replayed first;
    # they take seconds and catch the return of exactly those defects before any search starts
    regress_hits = []
    rg = os.path.join(ROOT, "regress", pid)
    n_regress = 0
    if os.path.isdir(rg) and not chk.get("no_regress"):
        for fn in sorted(os.listdir(rg)):
            f = os.path.join(rg, fn)
            n_regress += 1
            for argv, env in [(a, e) for a in chk["replay_argv"](f) for e in _replay_envs()]:
                try:
                    r = subprocess.run(argv, cwd=ROOT, stdout=subprocess.DEVNULL, stderr=subprocess.DEVNULL, timeout=300, preexec_fn=_limits_for(argv), env=env)
                    failed_again = r.returncode not in (0, 3)      # 3 = only a known-finding cell deviates, which the main run accounts for
                except subprocess.TimeoutExpired:
                    failed_again = True
                if failed_again:
                    regress_hits.append((f"saved counterexample {fn} fails again", f))
                    break
    jobs = chk["workers"](tier, seed, work)
    budget = chk.get("timeout", {}).get(tier, 1500)
    for i, j in enumerate(jobs):
        if i % 2 == 1:
            j.setdefault("env", {}).update(ODD_ENV)
    results = run_parallel(jobs, budget)
    timeouts = [j for j, rc in results if rc == "timeout"]
    crashes = [(j, rc) for j, rc in results if rc not in (0, 1, "timeout")]
    # exit status 1 is what a worker returns after recording a falsified property -- and also what the library's fatal-error path
    # (masa_exit -> exit(1)) produces when it terminates the harness in the middle of a case. Without a recorded violation it is the latter.
    for j, rc in results:
        if rc == 1 and not _job_reported_violation(j):
            crashes.append((j, "1 (no violation recorded: the library terminated the process, e.g. through its fatal-error path)"))
    counters, maxima, distinct, samples, findings = merge_stats([j["out"] for j in jobs])

    known = load_known()
    known_keys = {f["key"]: f for f in known.get("findings", []) if f.get("property") == pid}
    violations = []      # (description, file)
    known_hits = {}
    for fj in findings:
        if fj.get("violation"):
            violations.append((fj.get("sub", "?") + " " + fj.get("rapidcheck", "")[:300], fj.get("file")))
        elif "key" in fj:
            if fj["key"] in known_keys:
                known_hits.setdefault(fj["key"], fj)
            else:
                violations.append((f"unlisted deviation {fj['key']}: {fj.get('note','')}", fj.get("file")))
    if chk.get("collect"):
        violations.extend(chk["collect"](jobs, results))
        crashes = [(j, rc) for j, rc in crashes if not j.get("own_artifacts")]
    violations.extend(regress_hits)
    for j in timeouts:
        # a worker that exhausts a budget twenty times its normal running time is inconclusive in itself; the case it was executing is a
        # candidate (a hang inside the library), decided by the triage below: the case must fail, or hang again, in three fresh processes
        cand = os.path.join(j["faildir"], "current.case")
        if os.path.exists(cand) and not j.get("own_artifacts"):
            violations.append((f"worker hit the time budget while executing this case: {' '.join(j['argv'][:4])}", cand))
    for j, rc in crashes:
        # a harness process died (signal / sanitizer abort): the per-case file written before execution is the reproduction
        cand = os.path.join(j["faildir"], "current.case")
        violations.append((f"harness process exited with {rc}: {' '.join(j['argv'][:6])}", cand if os.path.exists(cand) else None))

    # triage: replay each violation three times from its file, in fresh processes, bypassing the property library
    confirmed, flaky = [], []
    rdir = os.path.join(ROOT, "replays", pid) if REPO == "/repo" else os.path.join(BUILD, "replays", pid)   # a scratch tree keeps its counterexamples with its build
    seen_files = set()
    for desc, f in violations:
        if not f or not os.path.exists(f):
            confirmed.append((desc, f or "(no replay file: see stderr)"))
            continue
        os.makedirs(rdir, exist_ok=True)
        dest = os.path.join(rdir, os.path.basename(f))
        if dest in seen_files:
            continue
        seen_files.add(dest)
        if os.path.isdir(f):
            shutil.rmtree(dest, ignore_errors=True)
            shutil.copytree(f, dest)
        else:
            shutil.copyfile(f, dest)
        ok = 0
        for _ in range(3):
            bad = False
            for argv, env in [(a, e) for a in chk["replay_argv"](dest) for e in _replay_envs()]:
                try:
                    r = subprocess.run(argv, cwd=ROOT, stdout=subprocess.DEVNULL, stderr=subprocess.DEVNULL, timeout=300, preexec_fn=_limits_for(argv), env=env)
                    if r.returncode != 0:
                        bad = True
                except subprocess.TimeoutExpired:
                    bad = True      # a saved case replays in milliseconds on a healthy tree; not terminating in 5 minutes reproduces a failure
            ok += 1 if bad else 0
        if ok == 3:
            confirmed.append((desc, dest))
        else:
            flaky.append((desc, dest, ok))

    for key, fj in sorted(known_hits.items()):
        print(f"KNOWN-FINDING: property={pid} {key}: {known_keys[key]['what']}")

    evals = int(counters.get("evaluations", 0))
    cov = {
        "evaluations": evals,
        "distinct_nontrivial": len(distinct),
        "rule": chk["rule"],
        "samples": [],
        "cases": int(counters.get("cases", 0)),
        "classes": {k[6:]: v for k, v in sorted(counters.items()) if k.startswith("class:")},
        "counters": {k: v for k, v in sorted(counters.items()) if not k.startswith("class:") and not k.startswith("evals:") and not k.startswith("errhist") and not k.startswith("errabhist")},
        "maxima": {k: v for k, v in sorted(maxima.items()) if not k.startswith("max_err:") and not k.startswith("max_errab:")},
        "per_cell_max_err": {k[8:]: round(v, 3) for k, v in sorted(maxima.items()) if k.startswith("max_err:")} if chk.get("per_cell") else None,
        "error_histogram_log2": {k.split(":")[1]: v for k, v in sorted(counters.items(), key=lambda kv: kv[0]) if k.startswith("errhist")},
        "known_findings_observed": sorted(known_hits.keys()),
        "known_finding_cells_excluded": int(sum(v for k, v in counters.items() if k.startswith("known_finding_cells:"))),
        "flaky": [{"what": d, "file": f, "reproduced": f"{n}/3"} for d, f, n in flaky],
        "inconclusive_timeouts": len(timeouts),
        "workers": len(jobs),
        "saved_counterexamples_replayed": n_regress,
        "build_s": round(bt, 1),
        "exhaustive": bool(chk.get("exhaustive", False)),
    }
    if cov["per_cell_max_err"] is None:
        del cov["per_cell_max_err"]
    for s in samples[:8]:
        cov["samples"].append(s)
    if not cov["samples"]:
        cov["samples"] = ["(no sample recorded)"]
    cov.update(chk.get("extra_coverage", lambda c, m: {})(counters, maxima))
    ev = {
        "property_id": pid, "tier": tier, "seed": int(seed), "level": chk.get("level", "exploration"),
        "coverage": cov, "assumptions": chk["assumptions"], "wall_s": round(time.time() - t0, 2), "violations": len(confirmed),
    }
    # experiments against seeded changes set VERIF_EVIDENCE_DIR so that they do not overwrite the evidence of the unchanged tree
    edir = os.environ.get("VERIF_EVIDENCE_DIR", os.path.join(ROOT, "evidence"))
    os.makedirs(edir, exist_ok=True)
    epath = os.path.join(edir, f"{pid}.json")
    with open(epath + ".tmp", "w") as f:
        json.dump(ev, f, indent=1)
    os.replace(epath + ".tmp", epath)
    if not confirmed:
        validate_evidence(epath)

    for d, f, n in flaky:
        log(f"FLAKY (not reported as violation): {d} file={f} reproduced {n}/3")
    if timeouts:
        log(f"INCONCLUSIVE: {len(timeouts)} worker(s) hit the time budget; their partial statistics are included")
    if confirmed:
        confirmed.sort(key=lambda df: 0 if (df[1] and os.path.exists(df[1])) else 1)   # reports that come with a replay file first
        for desc, f in confirmed:
            log("violation: " + desc)
            print(f"VIOLATION property={pid} replay={f}")
        return 1
    # generator health: a check that explored (almost) nothing must not pass silently
    min_nt = chk.get("min_nontrivial", {}).get(tier, 2)
    if len(distinct) < min_nt or evals < 1:
        die(f"GENERATOR-ERROR: only {len(distinct)} distinct non-trivial cases / {evals} evaluations (expected >= {min_nt}); harness defect, not a verdict")
    print(f"OK property={pid} tier={tier} seed={seed} evaluations={evals} distinct_nontrivial={len(distinct)} wall={ev['wall_s']}s")
    return 0
