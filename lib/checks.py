"""Per-property check descriptions (what to build, how to fan out, what the evidence says)."""
import os
from vdriver import BUILD, mix, NPROC

BIN = os.path.join(BUILD, "bin")

NUM_RULE = ("rapidcheck generates a fixed-length vector of 64-bit entropy words per case; a per-solution recipe turns it into an "
            "assignment of EVERY registered parameter (independently; one third log-scaled over 1e-3..1e3, admissibility by construction) "
            "and a point; the library is evaluated on a fresh handle and compared with nested forward-mode AD in binary128 of the "
            "documented fields under the textbook operator, tolerance |lib-ref| <= 64*eps(Scalar)*mag. "
            "Points: a box of a few wavelengths, exact zeros, far/tiny values, negative and zero times, and lattice points (multiples of 1 and of L: mesh nodes); "
            "one wave number in five is a small whole number. Each case: decoy handle of the same solution in the other registry; handle spelled like the solution; "
            "every fourth case in a populated registry (bystander of the same type, re-initialisation while the bystander is selected, select/init/select-back before the second phase, "
            "bystander verified untouched); evaluators in spec order rotated per case; in double, every C entry point of that arity against the C++ overload bit for bit; "
            "one case in eight with errno = EDOM and sticky FP status flags raised beforehand; then all parameters x 1.0625 on the same handle and everything again at the same point. "
            "A case is non-trivial when no parameter is 0 or 1, no two parameters coincide (relative gap > 1e-9) and all coordinates are "
            "distinct and non-zero; distinct_nontrivial counts distinct hashes of (solution, scalar type, all parameter bits, point bits) "
            "of such cases; evaluations counts (case, evaluator) comparisons.")

NUM_ASSUME = [
    "the reference fields are the documented closed forms (doxygen/solutions/*.page, class comments); where the API exposes a field the same run ties it to the reference",
    "libquadmath's binary128 elementary functions are accurate to far better than 2^-64",
    "tolerance constant K=64 on eps*mag with mag from running magnitude analysis (first-order inside field definitions, compounding in operator products)",
    "parameters are read back through masa_get_param, so the oracle sees the values the library holds",
]


def num_check(pid, cases_quick, cases_thorough, variants=("base",), min_nt=(200, 2000), extra_args=(), rule=NUM_RULE, assumptions=NUM_ASSUME, tq=900, tt=3000, binary="num", with_prop=True):
    def workers(tier, seed, work):
        n = cases_quick if tier == "quick" else cases_thorough
        jobs = []
        vs = variants if tier == "thorough" else variants[:1]
        nw = max(1, NPROC // len(vs))
        per = max(1, n // nw)
        k = 0
        for v in vs:
            for i in range(nw):
                d = os.path.join(work, f"{v}_w{i}")
                jobs.append(dict(argv=[os.path.join(BIN, f"{binary}.{v}")] + (["--prop", pid] if with_prop else []) + ["--seed", str(mix(seed, k)), "--cases", str(per),
                                       "--out", os.path.join(d, "stats.json"), "--faildir", d] + list(extra_args),
                                 out=os.path.join(d, "stats.json"), faildir=d))
                k += 1
        return jobs

    return dict(id=pid, variants=list(variants), bins=[f"{binary}.{v}" for v in variants], workers=workers,
                replay_argv=lambda path: [[os.path.join(BIN, f"{binary}.base"), "--replay", path]],
                variants_for=lambda tier: (list(variants) if tier == "thorough" else [variants[0]], [f"{binary}.{v}" for v in (variants if tier == "thorough" else variants[:1])]),
                rule=rule, assumptions=assumptions, per_cell=True,
                min_nontrivial={"quick": min_nt[0], "thorough": min_nt[1]}, timeout={"quick": tq, "thorough": tt})


CHECKS = {}
CHECKS["C01"] = num_check("C01", 10000, 160000)
CHECKS["C02"] = num_check("C02", 4000, 100000)
CHECKS["C03"] = num_check("C03", 6400, 100000)
CHECKS["C04"] = num_check("C04", 60000, 600000)
CHECKS["C05"] = num_check("C05", 16000, 250000)
CHECKS["C06"] = num_check("C06", 120000, 1200000)
CHECKS["C07"] = num_check("C07", 12800, 200000)
CHECKS["C08"] = num_check("C08", 32000, 500000)
CHECKS["C09"] = num_check("C09", 1200, 14400, variants=("base", "opt"))

C20_RULE = ("for each of 20 (richer, simpler) solution pairs and both scalar types rapidcheck generates the simpler solution's full parameter "
            "assignment and point plus the richer solution's remaining parameters; shared parameters are copied, the specialising ones are set to 0 "
            "(z-amplitudes and the w field; mu = k = 0; temporal amplitudes; A_t..D_t; k_1,k_2,cp_1,cp_2); both solutions live on two handles of one "
            "process and are evaluated alternately; corresponding sources must agree within 64*eps*(mag_a+mag_b), the AD oracle supplying the scale only. "
            "Non-trivial as for the residual checks (on the simpler case); distinct = distinct (pair, both assignments, points) hashes.")
CHECKS["C20"] = num_check("C20", 2000, 24000, binary="c20", with_prop=False, rule=C20_RULE,
                          assumptions=["the reference operator is used only as the scale of the comparison, never in the verdict",
                                       "shared parameters are the ones with identical names in both solutions"])


HIST_ASSUME = [
    "built against the exception-enabled library (-DMASA_EXCEPTIONS) so that misuse throws int instead of ending the harness",
    "the reference model learns parameter names and default values from the library right after the first masa_init of each solution type and requires them to repeat ever after",
    "capability sets come from the committed spec/capabilities.json (class declarations + naming convention), not from the tree under test",
    "every history starts from the empty registry via the MASA_VERIF reset hook",
]


def hist_check(pid, cases_q, cases_t, rule, variant="exc", maxsize_q=100, maxsize_t=200, min_nt=(100, 1000)):
    def workers(tier, seed, work):
        n = cases_q if tier == "quick" else cases_t
        per = max(1, n // NPROC)
        jobs = []
        for i in range(NPROC):
            d = os.path.join(work, f"w{i}")
            jobs.append(dict(argv=[os.path.join(BIN, f"hist.{variant}"), "--prop", pid, "--seed", str(mix(seed, i)), "--cases", str(per), "--maxsize", str(maxsize_q if tier == "quick" else maxsize_t),
                                   "--out", os.path.join(d, "stats.json"), "--faildir", d], out=os.path.join(d, "stats.json"), faildir=d))
        return jobs
    return dict(id=pid, variants=[variant], bins=[f"hist.{variant}"], workers=workers, replay_argv=lambda path: [[os.path.join(BIN, f"hist.{variant}"), "--replay", path]],
                rule=rule, assumptions=HIST_ASSUME, min_nontrivial={"quick": min_nt[0], "thorough": min_nt[1]}, timeout={"quick": 900, "thorough": 3000})


HIST_GEN = ("rapidcheck generates a vector of raw operation records (0..maxsize of them); each record is decoded against the CURRENT model state "
            "(one init in four spells the solution name with case changes and runs of dashes/blanks; unknown names are fixed strings or derived from valid ones; one valid set in eight is a one-ulp nudge) "
            "(handle slots, parameter/vector/evaluator indices modulo what exists, values from a magnitude-diverse decoder incl. +-0, denormals, 1e+-300, the marker) "
            "so every generated and every shrunk history is valid; the library is driven step by step next to a reference model and compared after every step; ")
CHECKS["C10"] = hist_check("C10", 48000, 192000, HIST_GEN + "C10: every provided evaluator call is repeated and re-evaluated on a fresh handle holding the same parameters (bit equality), and the "
                           "full parameter/vector snapshot of the evaluated handle must be unchanged; all handles of both precisions are audited at the end. Non-trivial: >= 2 provided evaluations "
                           "and a select of another handle or >= 2 inits in between. distinct = distinct decoded histories; evaluations = executed steps.")
CHECKS["C11"] = hist_check("C11", 128000, 768000, HIST_GEN + "C11: set/get/init_param/purge/sanity/display/set_vec/get_vec against a per-handle map model, valid and invalid names, evaluations compared with a "
                           "fresh handle that received only the final values. Non-trivial: an invalid-name operation, a purge or init_param, and a valid set in one history.")
CHECKS["C12"] = hist_check("C12", 24000, 144000, HIST_GEN + "C12: init/select/re-init over verbatim handle strings (10 fixed ones incl. empty, blanks, case twins, 300 characters, ' : ' inside, a control character; handles spelled like catalogue names; look-alikes run1/run01/'run 1'/h2/h10) in both precisions; after EVERY step every handle of both "
                           "registries is selected in turn and compared with the model (isolation), masa_list_mms is parsed and compared. Non-trivial: >= 3 inits, a re-init of a live handle and two handles of one type.")
CHECKS["C15"] = hist_check("C15", 48000, 384000, HIST_GEN + "C15: evaluator overloads outside the selected solution's capability set must return exactly -1.33, print (S)MASA ERROR, not throw, and leave every "
                           "parameter unchanged. Non-trivial: >= 3 such calls in one history.")
CHECKS["C17"] = hist_check("C17", 96000, 576000, HIST_GEN + "C17: every extern \"C\" entry point (header-declared and cmasa.cpp-only) is called and followed by the <double> template call obtained from the NAMING "
                           "convention at the same state: evaluators bitwise, statuses equal (non-zero cases generated: purge, empty vector, unknown names, the failing fixture), arrays through exact-size heap "
                           "buffers, masa_get_name into a sentinel-filled buffer. Non-trivial: >= 3 C calls interleaved with >= 1 C++ state change.")


def names_check(pid, cases_q, cases_t, rule, assumptions, exhaustive=False, min_nt=(100, 1000)):
    def workers(tier, seed, work):
        n = cases_q if tier == "quick" else cases_t
        per = max(1, n // NPROC)
        jobs = []
        for i in range(NPROC):
            d = os.path.join(work, f"w{i}")
            jobs.append(dict(argv=[os.path.join(BIN, "names.exc"), "--prop", pid, "--seed", str(mix(seed, i)), "--cases", str(per), "--out", os.path.join(d, "stats.json"), "--faildir", d],
                             out=os.path.join(d, "stats.json"), faildir=d))
        return jobs
    if pid == "C14":   # the enumeration is deterministic: replaying means running it again
        rp = lambda path: [[os.path.join(BIN, "names.exc"), "--prop", "C14", "--seed", "1", "--cases", "400", "--out", "/dev/null", "--faildir", os.path.join(BUILD, "work", "C14_replay")]]
    else:
        rp = lambda path: [[os.path.join(BIN, "fuzz_names.asanexc"), path]] if os.path.basename(path).split("@")[-1].startswith("crash-") else [[os.path.join(BIN, "names.exc"), "--replay", path]]
    return dict(id=pid, variants=["exc"], bins=["names.exc"], workers=workers, replay_argv=rp, rule=rule, assumptions=assumptions, exhaustive=exhaustive,
                min_nontrivial={"quick": min_nt[0], "thorough": min_nt[1]}, timeout={"quick": 600, "thorough": 2400})


CHECKS["C13"] = names_check("C13", 96000, 1200000,
    "rapidcheck draws a catalogue name (from masa_printid) and a transformation: (50%) per-character case flips plus runs of 0..3 characters from {'-',' '} at every gap incl. before the first and after "
    "the last character; (50%) negatives: one character deleted/replaced/transposed, '_' removed, another separator (tab . _ newline + /) inserted, prefixes/extensions, random printable strings, raw bytes, empty. "
    "Oracle: reference normaliser lower(s) without '-' and ' '; norm(s) in catalogue <=> masa_init returns, masa_get_name == norm(s), the handle is listed verbatim; otherwise int 1 is thrown after 'MASA FATAL ERROR' and "
    "masa_list_mms is unchanged (a pre-existing handle is registered first). Both scalar types, 7 handle strings. Non-trivial: decorated string != name containing a run of >= 2 adjacent separators or a leading/trailing one, or a near-miss negative; distinct by (string, handle, type).",
    ["exception build (-DMASA_EXCEPTIONS) observes rejections in-process; the exit() path of the same code is covered by C16's forked runs", "ASCII lower-casing (C locale)"])
CHECKS["C14"] = names_check("C14", 640000, 3200000,
    "exhaustive part: every name printed by masa_printid<double> / <long double> (equal lists, unique, own normal form, in spec/capabilities.json) is initialised in both scalar types; get_name, sanity_check == 0, "
    "init_param == 0 and get_dimension against the spec for every non-fixture entry. Generated part: rapidcheck draws (entry, scalar type, interior point in (0.05,0.95)^4, direction index) and calls EVERY evaluator of the entry's "
    "capability set with default parameters: finite and not -1.33. evaluations = enumerated entries + evaluator calls; distinct_nontrivial = distinct (entry, type, point).",
    ["capability sets and dimensions come from the committed spec/capabilities.json", "interior point: all coordinates in (0.05, 0.95), which is inside every solution's domain (r > 0, eta in (0,1), x,y > 0, t > 0)"], exhaustive=True)


def c16_check():
    rule = (HIST_GEN + "C16: a C12-style history with fatal-misuse steps injected at random points: any solution-dependent API function (117 C++ overloads x 2 types, parameter/vector/utility functions, every C entry point) on a registry "
            "that has no solution yet, masa_select_mms of an unknown handle, masa_init of an unknown name onto a new or an existing handle (C and C++). Exception build: int 1 is thrown after 'MASA FATAL ERROR', then every handle of both registries "
            "and the selection are compared with the unchanged model and the history goes on. exit() build: the failing call runs in a forked child; the parent requires exit status 1 and the message on the child's stdout. "
            "Non-trivial: a misuse step after a non-empty prefix.")
    def workers(tier, seed, work):
        n = 32000 if tier == "quick" else 400000
        per = max(1, n // NPROC)
        jobs = []
        for i in range(NPROC):
            d = os.path.join(work, f"w{i}")
            mode = i % 2
            jobs.append(dict(argv=[os.path.join(BIN, "hist.base" if mode else "hist.exc"), "--prop", "C16", "--fatal-mode", str(mode), "--seed", str(mix(seed, i)), "--cases", str(per if not mode else max(1, per // 4)), "--maxsize", "100" if tier == "quick" else "200",
                                   "--out", os.path.join(d, "stats.json"), "--faildir", d], out=os.path.join(d, "stats.json"), faildir=d))
        return jobs
    return dict(id="C16", variants=["exc", "base"], bins=["hist.exc", "hist.base"], workers=workers,
                replay_argv=lambda path: [[os.path.join(BIN, "hist.exc"), "--replay", path, "--fatal-mode", "0"], [os.path.join(BIN, "hist.base"), "--replay", path, "--fatal-mode", "1"]],
                rule=rule, assumptions=HIST_ASSUME + ["'state intact' is only observable, and only checked, in the exception build; the exit() build is observed from outside through fork()", "sod_1d is left out of the exit() build's catalogue: its own fatal error on non-bracketing parameters would end the harness"],
                min_nontrivial={"quick": 100, "thorough": 1000}, timeout={"quick": 900, "thorough": 3000})


CHECKS["C16"] = c16_check()


def c19_check():
    rule = ("five detectors over API histories decoded by the same model-based interpreter (every public entry point incl. re-init, vectors of changing length, the C array interface with *n from 0 to the buffer length through exact-size heap buffers, "
            "masa_get_name into exact-size buffers, misuse steps): (1) libFuzzer, coverage-guided, 20-byte operation records, empty and seeded corpora, ASan+UBSan, LeakSanitizer after every iteration (registries emptied first, so anything still allocated is unreachable); "
            "(2) rapidcheck histories under ASan+UBSan, each serialised before it runs; (3) live-byte accounting with replaced operator new/delete: repeating a masa_init leaves the live bytes unchanged and emptying the registries returns to the baseline; "
            "(4) Valgrind memcheck (uninitialised reads, definite/indirect leaks) over saved histories; (5) process shutdown: saved histories re-run in the ASan build with an atexit handler registered before the first MASA call, registries left populated, the handler walks both registries. Non-trivial: a handle re-initialised and a vector/array length changed in one history (or >= 2 types with a re-used handle for the accounting). "
            "evaluations = executed steps; only crash-/leak- artifacts, sanitizer aborts, accounting mismatches and Valgrind errors are violations.")
    def workers(tier, seed, work):
        quick = tier == "quick"
        jobs = []
        T = 50 if quick else 900
        for i in range(6):
            d = os.path.join(work, f"fuzz{i}")
            corpus = os.path.join(d, "corpus"); art = os.path.join(d, "art")
            os.makedirs(corpus, exist_ok=True); os.makedirs(art, exist_ok=True)
            env = {"VERIF_STATS": os.path.join(d, "stats.json"), "VERIF_SEED": str(mix(seed, 100 + i)), "ASAN_OPTIONS": "detect_leaks=1:allocator_may_return_null=1", "UBSAN_OPTIONS": "print_stacktrace=1"}
            if i % 3 == 0:
                env["VERIF_SEED_CORPUS"] = corpus          # a few generated valid histories
            elif i % 3 == 1:                               # the committed corpus of an earlier 12 core-hour campaign (set-cover minimised): a sample in the quick tier, all of it in the thorough tier
                import tarfile, random
                tgz = os.path.join(os.path.dirname(os.path.dirname(os.path.abspath(__file__))), "corpus", "c19_histories.tgz")
                if os.path.exists(tgz):
                    with tarfile.open(tgz) as tf:
                        members = [m for m in tf.getmembers() if m.isfile()]
                        if quick:
                            random.Random(mix(seed, 500 + i)).shuffle(members)
                            members = members[:250]
                        for m in members:
                            m.name = os.path.basename(m.name)
                            tf.extract(m, corpus)
            jobs.append(dict(argv=[os.path.join(BIN, "fuzz_hist.asanexc"), f"-max_total_time={T}", f"-seed={1 + mix(seed, i) % 2000000000}", "-max_len=1280", "-len_control=0", "-detect_leaks=1", "-timeout=120", "-rss_limit_mb=4096",
                                   f"-artifact_prefix={art}/", corpus], out=os.path.join(d, "stats.json"), faildir=d, env=env, own_artifacts=True, art=art))
        for i in range(5):
            d = os.path.join(work, f"rc{i}")
            jobs.append(dict(argv=[os.path.join(BIN, "hist.asanexc"), "--prop", "C19", "--seed", str(mix(seed, 200 + i)), "--cases", str(250 if quick else 6000), "--maxsize", "100" if quick else "200",
                                   "--out", os.path.join(d, "stats.json"), "--faildir", d], out=os.path.join(d, "stats.json"), faildir=d, env={"ASAN_OPTIONS": "detect_leaks=1"}))
        for i in range(2):
            d = os.path.join(work, f"leak{i}")
            jobs.append(dict(argv=[os.path.join(BIN, "leak.exc"), "--seed", str(mix(seed, 300 + i)), "--cases", str(150 if quick else 4000), "--out", os.path.join(d, "stats.json"), "--faildir", d], out=os.path.join(d, "stats.json"), faildir=d))
        for i in range(3):
            d = os.path.join(work, f"vg{i}"); dump = os.path.join(d, "histories")
            os.makedirs(dump, exist_ok=True)
            n = 14 if quick else 700
            cmd = (f"{BIN}/hist.exc --prop C19 --seed {mix(seed, 400 + i)} --cases {n * 3} --maxsize 60 --dump {n} --dump-dir {dump} --out {d}/stats.json --faildir {d} && "
                   f"valgrind -q --error-exitcode=9 --leak-check=full --errors-for-leak-kinds=definite,indirect --track-origins=yes --num-callers=20 {BIN}/hist.exc --replay-many {dump} 2> {d}/valgrind.txt")
            jobs.append(dict(argv=["sh", "-c", cmd], out=os.path.join(d, "stats.json"), faildir=d, own_artifacts=True, vgdir=dump))
        for i in range(2):   # process shutdown: saved histories re-run with an atexit hook registered before the first MASA call (ASan build)
            d = os.path.join(work, f"ax{i}"); dump = os.path.join(d, "histories")
            os.makedirs(dump, exist_ok=True)
            n = 12 if quick else 300
            cmd = (f"{BIN}/hist.exc --prop C19 --seed {mix(seed, 500 + i)} --cases {n * 3} --maxsize 40 --dump {n} --dump-dir {dump} --out {d}/stats.json --faildir {d} || exit 3; "
                   f"for f in {dump}/case_*.case; do {BIN}/hist.asanexc --at-exit $f 2> {d}/atexit_stderr.txt || {{ cp $f {d}/fail_atexit.case; exit 7; }}; done")
            jobs.append(dict(argv=["sh", "-c", cmd], out=os.path.join(d, "stats.json"), faildir=d, own_artifacts=True, axdir=d, env={"ASAN_OPTIONS": "detect_leaks=1"}))
        return jobs
    def collect(jobs, results):
        out = []
        for j, rc in results:
            if "axdir" in j and rc not in (0, "timeout"):
                f = os.path.join(j["axdir"], "fail_atexit.case")
                out.append((f"API calls from an atexit handler registered before the first MASA call: sanitizer report or abnormal end (exit {rc}), see {j['axdir']}/atexit_stderr.txt", f if os.path.exists(f) else None))
            if "art" in j:
                for fn in sorted(os.listdir(j["art"])):
                    if fn.startswith("crash-") or fn.startswith("leak-"):
                        out.append((f"libFuzzer artifact {fn} (sanitizer report in {j['faildir']}/stderr.txt)", os.path.join(j["art"], fn)))
                if rc not in (0, "timeout") and not any(f.startswith(("crash-", "leak-", "oom-", "timeout-", "slow-unit-")) for f in os.listdir(j["art"])):
                    out.append((f"fuzzer process ended with {rc} without an artifact", None))
            if "vgdir" in j and rc not in (0, "timeout"):
                out.append((f"Valgrind memcheck reported errors (exit {rc}), see valgrind.txt", j["vgdir"]))
        return out
    def replay(path):
        b = os.path.basename(path.rstrip("/"))
        if os.path.isdir(path):
            return [["valgrind", "-q", "--error-exitcode=9", "--leak-check=full", "--errors-for-leak-kinds=definite,indirect", "--track-origins=yes", os.path.join(BIN, "hist.exc"), "--replay-many", path]]
        if b.startswith(("crash-", "leak-", "oom-")) or "@crash-" in b or "@leak-" in b:
            return [[os.path.join(BIN, "fuzz_hist.asanexc"), "-detect_leaks=1", path]]
        if b.startswith("fail_atexit") or "@fail_atexit" in b:
            return [[os.path.join(BIN, "hist.asanexc"), "--at-exit", path]]
        if b.startswith("fail_leak") or "@fail_leak" in b:
            return [[os.path.join(BIN, "leak.exc"), "--replay", path]]
        return [[os.path.join(BIN, "hist.asanexc"), "--replay", path]]
    return dict(id="C19", variants=["asanexc", "exc"], bins=["fuzz_hist.asanexc", "hist.asanexc", "hist.exc", "leak.exc"], workers=workers, collect=collect, replay_argv=replay, rule=rule,
                assumptions=["clang 14 ASan/UBSan/LSan runtimes and Valgrind 3.19 memcheck are the detectors; MemorySanitizer is unusable here (uninstrumented libstdc++)",
                             "every iteration starts from empty registries through the MASA_VERIF reset hook; the exception build lets misuse steps run in-process",
                             "libFuzzer campaigns are pinned only approximately by -seed; the saved artifact is the reproducible unit",
                             "timeout-/oom-/slow-unit- artifacts are load noise and are reported as inconclusive, never as violations"],
                min_nontrivial={"quick": 20, "thorough": 500}, timeout={"quick": 1200, "thorough": 4000})


CHECKS["C19"] = c19_check()


def c18_check():
    import sys
    from vdriver import REPO, ROOT
    script = os.path.join(ROOT, "tools/c18_check.py")
    def workers(tier, seed, work):
        jobs = []
        n = 4 if tier == "quick" else NPROC
        for i in range(n):
            d = os.path.join(work, f"w{i}")
            jobs.append(dict(argv=[sys.executable, script, "--repo", REPO, "--build", BUILD, "--seed", str(mix(seed, i)), "--cases", str(20000 if tier == "quick" else 400000), "--out", os.path.join(d, "stats.json"), "--faildir", d],
                             out=os.path.join(d, "stats.json"), faildir=d))
        return jobs
    return dict(id="C18", variants=["base"], bins=[], workers=workers,
                replay_argv=lambda path: [[sys.executable, script, "--repo", REPO, "--build", BUILD, "--seed", "1", "--cases", "2000", "--out", os.path.join(BUILD, "work", "C18_replay.json"), "--faildir", os.path.join(BUILD, "work", "C18_replay")]],
                rule=("exhaustive static half: all bind(C, name=...) interface blocks of masa.f90 are parsed (name, dummy list, value attributes, c_double/c_int/c_char, assumed-size arrays, procedure dummies with their own interface, function vs "
                      "subroutine) into the C prototype a Fortran processor calls; the C++ compiler decides type identity with one static_assert(is_same) per block against the definitions in the tree's cmasa.cpp (const on pointees ignored; a subroutine may bind an "
                      "int-returning C function, MASA's documented convention); every function declared in the extern \"C\" part of the generated masa.h is address-taken from C and linked against the built library; masa.i must be %module masa plus exactly one %include \"masa.h\". "
                      "Generated half: every evaluator binding is CALLED through a function declared with the Fortran-derived prototype and bound to the same symbol by an asm label (the real declaration is not visible to that translation unit) with rapidcheck-generated "
                      "arguments, on a solution that provides it, and compared bit for bit with the C++ <double> template given by the naming convention. evaluations = blocks + declarations + 1 + calls; non-trivial = every block/declaration plus every call returning a non-sentinel value."),
                assumptions=["gfortran and swig are not installed: neither binding can be compiled or run; type identity is decided by the C++ compiler on prototypes derived by a parser for the interface-block subset of Fortran that masa.f90 uses",
                             "ISO_C_BINDING mapping: real(c_double)->double, integer(c_int)->int, character(c_char)(*)->char*, VALUE->by value, otherwise by reference",
                             "x86-64 SysV calling convention for the call-through half"],
                exhaustive=True, min_nontrivial={"quick": 100, "thorough": 100}, timeout={"quick": 600, "thorough": 2400})


CHECKS["C18"] = c18_check()


def _c12_with_exhaustive():
    base = CHECKS["C12"]
    rnd_workers = base["workers"]
    def workers(tier, seed, work):
        jobs = rnd_workers(tier, seed, work)
        L = 5 if tier == "quick" else 7
        ns = 8 if tier == "quick" else NPROC
        for i in range(ns):
            d = os.path.join(work, f"ex{i}")
            jobs.append(dict(argv=[os.path.join(BIN, "hist.exc"), "--exhaustive-len", str(L), "--shard", str(i), "--nshards", str(ns), "--out", os.path.join(d, "stats.json"), "--faildir", d], out=os.path.join(d, "stats.json"), faildir=d))
        return jobs
    base["workers"] = workers
    base["rule"] += (" Exhaustive part: ALL sequences of length <= 5 (quick) / <= 7 (thorough) over the 9-letter alphabet {init(a,euler_1d), init(b,euler_1d), init(a,heateq_1d_steady_const), select(a), select(b), "
                     "set(1st parameter), set(2nd parameter), init_param, init<long double>(a,euler_1d)} are executed from the empty registry with the full audit after every step (sequences that would select an absent handle are the "
                     "fatal path of C16 and are skipped); counted under classes exhaustive_sequence_len=*.")
    base["exhaustive"] = False
    return base


CHECKS["C12"] = _c12_with_exhaustive()


def _c13_with_fuzzer():
    base = CHECKS["C13"]
    rc_workers = base["workers"]
    def workers(tier, seed, work):
        jobs = rc_workers(tier, seed, work)
        T = 30 if tier == "quick" else 600
        for i in range(4):
            d = os.path.join(work, f"fuzz{i}"); corpus = os.path.join(d, "corpus"); art = os.path.join(d, "art")
            os.makedirs(corpus, exist_ok=True); os.makedirs(art, exist_ok=True)
            env = {"VERIF_STATS": os.path.join(d, "stats.json"), "VERIF_FAILDIR": d, "ASAN_OPTIONS": "detect_leaks=0"}
            if i % 2 == 0:
                env["VERIF_SEED_CORPUS"] = corpus
            jobs.append(dict(argv=[os.path.join(BIN, "fuzz_names.asanexc"), f"-max_total_time={T}", f"-seed={1 + mix(seed, 50 + i) % 2000000000}", "-max_len=64", "-timeout=60", f"-artifact_prefix={art}/", corpus],
                             out=os.path.join(d, "stats.json"), faildir=d, env=env, own_artifacts=True, art=art))
        return jobs
    def collect(jobs, results):
        out = []
        for j, rc in results:
            if "art" in j and any(f.startswith("crash-") for f in os.listdir(j["art"])):
                f = os.path.join(j["faildir"], "fail_C13.case")
                note = ""
                try:
                    note = open(os.path.join(j["faildir"], "fail_C13.txt")).read()[:300]
                except OSError:
                    pass
                if not os.path.exists(f):     # a sanitizer abort leaves no semantic failure file: the artifact itself is the reproduction
                    f = sorted(os.path.join(j["art"], a) for a in os.listdir(j["art"]) if a.startswith("crash-"))[0]
                out.append(("libFuzzer: " + (note or "sanitizer report in " + os.path.join(j["faildir"], "stderr.txt")), f))
        return out
    base["workers"] = workers
    base["collect"] = collect
    base["variants"] = ["exc", "asanexc"]
    base["bins"] = ["names.exc", "fuzz_names.asanexc"]
    base["rule"] += " Additionally 4 libFuzzer processes (ASan+UBSan build; corpus = catalogue names and decorated names, or empty) feed raw bytes as the solution string through the same oracle."
    return base


CHECKS["C13"] = _c13_with_fuzzer()


def _with_enumeration(pid, nshards=4):
    base = CHECKS[pid]
    rnd = base["workers"]
    def workers(tier, seed, work):
        jobs = rnd(tier, seed, work)
        for i in range(nshards):
            d = os.path.join(work, f"enum{i}")
            jobs.append(dict(argv=[os.path.join(BIN, "hist.exc"), "--enumerate", pid, "--shard", str(i), "--nshards", str(nshards), "--out", os.path.join(d, "stats.json"), "--faildir", d], out=os.path.join(d, "stats.json"), faildir=d))
        return jobs
    base["workers"] = workers
    base["rule"] += (" Exhaustive part: every (catalogue entry incl. fixtures, " + ("C entry point" if pid == "C17" else "scalar type, C++ evaluator overload") + ") pair is executed once at two argument sets through the same interpreter "
                     "(classes enumerated_pairs).")
    return base


CHECKS["C15"] = _with_enumeration("C15")
CHECKS["C17"] = _with_enumeration("C17")
