"""Per-property check descriptions (what to build, how to fan out, what the evidence says)."""
import os
from vdriver import BUILD, mix, NPROC

BIN = os.path.join(BUILD, "bin")

NUM_RULE = ("rapidcheck generates a fixed-length vector of 64-bit entropy words per case; a per-solution recipe turns it into an "
            "assignment of EVERY registered parameter (independently; one third log-scaled over 1e-3..1e3, admissibility by construction) "
            "and a point; the library is evaluated on a fresh handle and compared with nested forward-mode AD in binary128 of the "
            "documented fields under the textbook operator, tolerance |lib-ref| <= 32*eps(Scalar)*mag. "
            "A case is non-trivial when no parameter is 0 or 1, no two parameters coincide (relative gap > 1e-9) and all coordinates are "
            "distinct and non-zero; distinct_nontrivial counts distinct hashes of (solution, scalar type, all parameter bits, point bits) "
            "of such cases; evaluations counts (case, evaluator) comparisons.")

NUM_ASSUME = [
    "the reference fields are the documented closed forms (doxygen/solutions/*.page, class comments); where the API exposes a field the same run ties it to the reference",
    "libquadmath's binary128 elementary functions are accurate to far better than 2^-64",
    "tolerance constant K=32 on eps*mag with mag from running magnitude analysis (first-order inside field definitions, compounding in operator products)",
    "parameters are read back through masa_get_param, so the oracle sees the values the library holds",
]


def num_check(pid, cases_quick, cases_thorough, variants=("base",), min_nt=(200, 2000), extra_args=(), rule=NUM_RULE, assumptions=NUM_ASSUME, tq=900, tt=3000, binary="num", with_prop=True):
    def workers(tier, seed, work):
        n = cases_quick if tier == "quick" else cases_thorough
        jobs = []
        vs = variants if tier == "thorough" else variants[:1]
        nw = max(1, NPROC // len(vs))
        per = max(1, n // nw)
        k = 0
        for v in vs:
            for i in range(nw):
                d = os.path.join(work, f"{v}_w{i}")
                jobs.append(dict(argv=[os.path.join(BIN, f"{binary}.{v}")] + (["--prop", pid] if with_prop else []) + ["--seed", str(mix(seed, k)), "--cases", str(per),
                                       "--out", os.path.join(d, "stats.json"), "--faildir", d] + list(extra_args),
                                 out=os.path.join(d, "stats.json"), faildir=d))
                k += 1
        return jobs

    return dict(id=pid, variants=list(variants), bins=[f"{binary}.{v}" for v in variants], workers=workers,
                replay_argv=lambda path: [[os.path.join(BIN, f"{binary}.base"), "--replay", path]],
                variants_for=lambda tier: (list(variants) if tier == "thorough" else [variants[0]], [f"{binary}.{v}" for v in (variants if tier == "thorough" else variants[:1])]),
                rule=rule, assumptions=assumptions, per_cell=True,
                min_nontrivial={"quick": min_nt[0], "thorough": min_nt[1]}, timeout={"quick": tq, "thorough": tt})


CHECKS = {}
CHECKS["C01"] = num_check("C01", 16000, 400000)
CHECKS["C02"] = num_check("C02", 6400, 160000)
CHECKS["C03"] = num_check("C03", 3200, 64000)
CHECKS["C04"] = num_check("C04", 32000, 800000)
CHECKS["C05"] = num_check("C05", 6400, 160000)
CHECKS["C06"] = num_check("C06", 32000, 800000)
CHECKS["C07"] = num_check("C07", 3200, 64000)
CHECKS["C08"] = num_check("C08", 12800, 320000)
CHECKS["C09"] = num_check("C09", 1600, 32000, variants=("base", "opt"))

C20_RULE = ("for each of 20 (richer, simpler) solution pairs and both scalar types rapidcheck generates the simpler solution's full parameter "
            "assignment and point plus the richer solution's remaining parameters; shared parameters are copied, the specialising ones are set to 0 "
            "(z-amplitudes and the w field; mu = k = 0; temporal amplitudes; A_t..D_t; k_1,k_2,cp_1,cp_2); both solutions live on two handles of one "
            "process and are evaluated alternately; corresponding sources must agree within 32*eps*(mag_a+mag_b), the AD oracle supplying the scale only. "
            "Non-trivial as for the residual checks (on the simpler case); distinct = distinct (pair, both assignments, points) hashes.")
CHECKS["C20"] = num_check("C20", 4000, 100000, binary="c20", with_prop=False, rule=C20_RULE,
                          assumptions=["the reference operator is used only as the scale of the comparison, never in the verdict",
                                       "shared parameters are the ones with identical names in both solutions"])
