#!/bin/bash
# usage: tools/confirm_mutant.sh <worktree>    -- independent confirmation of a seeded change inside its scratch worktree
wt=$1; cd $wt || exit 2
git checkout -q -- src; git apply MUTANT/patch.diff || { echo "CONFIRM patch does not apply"; exit 1; }
make -j8 >/dev/null 2>&1 || { echo "CONFIRM does not compile"; exit 1; }
make -k check -j8 > /tmp/confirm_check.$(basename $wt).log 2>&1
fails=$(grep -E "^# (FAIL|ERROR):" /tmp/confirm_check.$(basename $wt).log | awk '{s+=$3} END{print s+0}'); passes=$(grep -E "^# PASS:" /tmp/confirm_check.$(basename $wt).log | awk '{s+=$3} END{print s+0}')
echo "CONFIRM suite with change: PASS=$passes FAIL+ERROR=$fails"
build=$(cat MUTANT/BUILD | head -n 20)
( cd $wt && bash -c "$build" ) > /tmp/confirm_demo_mut.$(basename $wt).log 2>&1; rc_mut=$?
git checkout -q -- src; make -j8 >/dev/null 2>&1
( cd $wt && bash -c "$build" ) > /tmp/confirm_demo_clean.$(basename $wt).log 2>&1; rc_clean=$?
git apply MUTANT/patch.diff; make -j8 >/dev/null 2>&1
echo "CONFIRM demo: with change rc=$rc_mut, without rc=$rc_clean"
if [ "$fails" = "0" ] && [ "$rc_mut" != "0" ] && [ "$rc_clean" = "0" ]; then echo "CONFIRM OK"; else echo "CONFIRM NOT-OK"; tail -n 5 /tmp/confirm_demo_mut.$(basename $wt).log; tail -n 5 /tmp/confirm_demo_clean.$(basename $wt).log; fi
