#!/usr/bin/env python3
"""spec/capabilities.json (committed) -> C++ table.  gen_capspec.py <json> <out.cpp>"""
import json, sys
d = json.load(open(sys.argv[1]))
o = ['// generated from spec/capabilities.json -- do not edit', '#include "hist.hpp"', 'const CapSpec &capspec() { static CapSpec c = [] { CapSpec s;']
for sol, caps in sorted(d["provides"].items()):
    o.append('  s.provides["%s"] = {%s};' % (sol, ", ".join('"%s"' % c for c in caps)))
for sol, caps in sorted(d.get("unspecified", {}).items()):
    o.append('  s.unspecified["%s"] = {%s};' % (sol, ", ".join('"%s"' % c for c in caps)))
for sol, dim in sorted(d["dimension"].items()):
    if dim is not None:
        o.append('  s.dimension["%s"] = %d;' % (sol, dim))
o.append('  return s; }(); return c; }')
open(sys.argv[2], "w").write("\n".join(o) + "\n")
