#!/bin/bash
# usage: tools/try_mutant_alt.sh <tree> <patch.diff> <tier> <id> [<id> ...]
# like try_mutant.sh, but applies the patch to a scratch worktree <tree> (never /repo) and runs the checks with VERIF_REPO=<tree>;
# counterexamples land in /verif/build_alt/<hash>/replays/<id>. Used for long regressions while /repo is needed for other experiments.
tree=$1; patch=$2; tier=$3; shift 3
[ "$tree" = "/repo" ] && { echo "use try_mutant.sh for /repo"; exit 2; }
cd $tree || exit 2
if [ -n "$(git status --porcelain --untracked-files=no)" ]; then echo "$tree has uncommitted changes; refusing"; exit 2; fi
git apply "$patch" || { echo "patch does not apply"; exit 2; }
cd /verif
export VERIF_REPO=$tree VERIF_EVIDENCE_DIR=/verif/build/evidence_scratch_alt
for id in "$@"; do
  out=$(bin/check $id --tier $tier 2>&1); rc=$?
  line=$(echo "$out" | grep -E "^(VIOLATION|OK)" | head -n 1)
  echo "$id rc=$rc $line"
  echo "$out" | grep -E "^violation:" | head -n 2 | cut -c1-300
done
git -C $tree checkout -- .
