#!/usr/bin/env python3
"""One-off derivation of spec/capabilities.json: which public evaluator overloads each catalogue solution provides.
Source of truth: the class declarations (masa_internal.h, smasa.h) -- the only complete statement in the repository of what
each solution implements -- combined with the NAMING CONVENTION between the public API and the virtuals
(masa_eval_source_X <-> eval_q_X, masa_eval_exact_X <-> eval_exact_X, masa_eval_grad_X <-> eval_g_X, statistics by name).
The forwarding code in masa_core.cpp is deliberately NOT consulted, so a mis-forwarded API function disagrees with the table.
The result is committed; checks read the committed file, never re-derive it from the tree under test."""
import json, re, sys, glob
src = sys.argv[1] if len(sys.argv) > 1 else "/repo/src"
hdr = open(src + "/masa_internal.h").read() + "\n" + open(src + "/smasa.h").read()
hdr = re.sub(r"/\*.*?\*/", "", hdr, flags=re.S)
cpps = "\n".join(open(f).read() for f in glob.glob(src + "/*.cpp"))
STAT = {"eval_likelyhood": "masa_eval_likelyhood", "eval_loglikelyhood": "masa_eval_loglikelyhood", "eval_prior": "masa_eval_prior",
        "eval_posterior": "masa_eval_posterior", "eval_cen_mom": "masa_eval_central_moment", "eval_post_mean": "masa_eval_posterior_mean",
        "eval_post_var": "masa_eval_posterior_variance"}
def api_name(v):
    if v in STAT: return STAT[v]
    if v.startswith("eval_q_"): return "masa_eval_source_" + v[7:]
    if v.startswith("eval_exact_"): return "masa_eval_exact_" + v[11:]
    if v.startswith("eval_g_"): return "masa_eval_grad_" + v[7:]
    return None
def sig(args):
    out = ""
    for a in [x.strip() for x in args.split(",") if x.strip()]:
        if "(*" in a: out += "F"
        elif a.startswith("int"): out += "I"
        else: out += "S"
    return out
classes = {}
for m in re.finditer(r"class\s+(\w+)\s*(?::[^{;]*?)?\{", hdr):
    name = m.group(1); depth = 0; i = m.end() - 1
    while True:
        if hdr[i] == "{": depth += 1
        elif hdr[i] == "}":
            depth -= 1
            if depth == 0: break
        i += 1
    body = hdr[m.end():i]
    body = re.sub(r"//[^\n]*", "", body)
    caps = set()
    for d in re.finditer(r"Scalar\s+(eval_\w+)\s*\(([^)]*(?:\([^)]*\)[^)]*)*)\)\s*[;{]", body):
        a = api_name(d.group(1))
        if a: caps.add(f"{a}({sig(d.group(2))})")
    classes[name] = sorted(caps)
# the power-law class forwards through nsctpl: declared in masa_internal.h as well
names = {}
for m in re.finditer(r"MASA::(\w+)<Scalar>::\1\s*\(\s*\)[^{]*\{(.*?)\n\}", cpps, re.S):
    mm = re.search(r'mmsname\s*=\s*"([^"]+)"', m.group(2))
    if mm: names[m.group(1)] = mm.group(1)
pub = open(src + "/masa.h.in").read(); pub = pub[pub.index("namespace MASA"):pub.index('extern "C"')]
api = set()
for m in re.finditer(r"template\s*<typename Scalar>\s*Scalar\s+(masa_eval_\w+)\s*\(([^;]*?)\)\s*;", pub, re.S):
    api.add(f"{m.group(1)}({sig(m.group(2))})")
# documented exception to the naming convention: the ablation boundary source
RENAME = {"masa_eval_source_u_boundary(S)": "masa_eval_source_boundary(S)"}
out = {}
for cls, cat in sorted(names.items(), key=lambda kv: kv[1]):
    if cls in classes: out[cat] = sorted(set(RENAME.get(c, c) for c in classes[cls]) & api)
import re as _re
DIM = {"axisymmetric_euler": 2, "axisymmetric_navierstokes_compressible": 2, "axi_euler_transient": 2, "axi_cns_transient": 2, "cp_normal": 1, "burgers_equation": 2,
       "rans_sa": 1, "fans_sa_steady_wall_bounded": 2, "fans_sa_transient_free_shear": 2, "radiation_integrated_intensity": 1, "masa_uninit": 1, "masa_test_function": 1}
dims = {}
for cat in out:
    m = _re.search(r"_(\d)d", cat)
    dims[cat] = DIM.get(cat, int(m.group(1)) if m else None)
UNSPEC = {"sod_1d": ["masa_eval_source_t(S)"]}
for k, v in UNSPEC.items():
    out[k] = [c for c in out[k] if c not in v]
json.dump({"dimension": dims, "unspecified": UNSPEC, "_comment": "solution -> public evaluator overloads it provides (S = Scalar argument, I = int, F = callback); derived once by tools/derive_capabilities.py from the class declarations and reviewed by hand; committed spec of C14/C15",
           "api": sorted(api), "provides": out}, sys.stdout, indent=1)
