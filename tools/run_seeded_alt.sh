#!/bin/bash
# Re-run every filed seeded change on a scratch worktree: tools/run_seeded_alt.sh <tree> [quick|thorough] [name-prefix] [--save]
tree=$1; tier=${2:-quick}; pre=${3:-}; save=${4:-}
cd /verif
rdir=$(VERIF_REPO=$tree python3 -c "import sys; sys.path.insert(0,'/verif/lib'); import vdriver; print(vdriver.BUILD)")/replays
for d in seeded/${pre}*/; do
  n=$(basename $d)
  id=$(python3 -c "import json;c=json.load(open('$d/meta.json'))['caught_by'];print(c[0] if c else '')")
  if [ -z "$id" ]; then echo "$n -> recorded as not caught (see meta.json)"; continue; fi
  rm -rf $rdir/$id
  res=$(tools/try_mutant_alt.sh $tree /verif/$d/patch.diff $tier $id 2>&1 | grep -E "^$id rc=" | head -n 1 | cut -c1-120)
  echo "$n -> $res"
  if [ "$save" = "--save" ] && [ -d $rdir/$id ]; then mkdir -p regress/$id; k=0; for f in $rdir/$id/*; do if [ -f "$f" ] && [ $k -lt 2 ]; then case "$(basename $f)" in *@*) ;; *.case|crash-*|leak-*) cp "$f" "regress/$id/${n}@$(basename $f)"; k=$((k+1));; esac; fi; done; fi
done
