#!/usr/bin/env python3
"""C18: Fortran (masa.f90) and SWIG (masa.i) bindings against the C ABI of the tree under test.

  c18_check.py --repo R --build B --seed N --cases M --out stats.json --faildir D

Exhaustive, static half (the compiler is the oracle for type identity):
  * every bind(C, name=...) interface block of masa.f90 is parsed into the C prototype a Fortran processor would call;
    a generated translation unit #includes the tree's cmasa.cpp and holds one static_assert(is_same<...>) per block;
  * every function declared in the extern "C" part of masa.h is address-taken in a C file and linked against the built library;
  * masa.i must be `%module masa` plus exactly one `%include "masa.h"`, no %ignore/%rename/%extend/%inline.
Generated half: every evaluator-like binding is CALLED through the Fortran-derived prototype (a separately declared function bound to
the same symbol with an asm label, so the real declaration is never seen) with rapidcheck-generated arguments and compared bit for bit
with the C++ <double> template obtained from the naming convention.
"""
import json
import os
import re
import subprocess
import sys


def arg(name, default=None):
    a = sys.argv
    return a[a.index(name) + 1] if name in a else default


repo, build = arg("--repo", "/repo"), arg("--build", "/verif/build")
seed, cases = int(arg("--seed", "1")), int(arg("--cases", "300"))
out, faildir = arg("--out"), arg("--faildir", ".")
os.makedirs(faildir, exist_ok=True)
gen = os.path.join(build, "gen")
counters, findings, samples, distinct = {}, [], [], set()


def count(k, n=1):
    counters[k] = counters.get(k, 0) + n


def violation(what):
    f = os.path.join(faildir, f"fail_C18_{len(findings)}.txt")
    open(f, "w").write(what + "\n")
    findings.append({"violation": True, "sub": what, "file": f})


# ------------------------------------------------------------------ parse masa.f90
src = open(os.path.join(repo, "src/masa.f90")).read()
lines = [re.sub(r"!.*$", "", l.replace("\t", " ")) for l in src.split("\n")]
text = "\n".join(lines)
START = re.compile(r"^\s*(?:(real\s*\(\s*c_double\s*\)|integer\s*\(\s*c_int\s*\))\s+)?(function|subroutine)\s+(\w+)\s*\(([^)]*)\)\s*bind\s*\(\s*C\s*,\s*name\s*=\s*'(\w+)'\s*\)", re.I)
DECL = re.compile(r"^\s*(real|integer|character)\s*\(\s*(\w+)\s*\)\s*((?:,\s*[\w() *:]+?\s*)*)::\s*(.+)$", re.I)


def ctype_of(kind, ckind, attrs, name_part, errors, where):
    base = {"real": "double", "integer": "int", "character": "char"}[kind.lower()]
    expect = {"real": "c_double", "integer": "c_int", "character": "c_char"}[kind.lower()]
    if ckind.lower() != expect:
        errors.append(f"{where}: kind {ckind} is not {expect}")
    attrs_l = attrs.lower()
    by_value = re.search(r"\bvalue\b", attrs_l) is not None
    is_array = "dimension" in attrs_l or "(*)" in name_part or "(:" in name_part
    if by_value and is_array:
        errors.append(f"{where}: value attribute on an array")
    if re.search(r"dimension\s*\(\s*:", attrs_l) or "(:" in name_part:
        errors.append(f"{where}: assumed-shape array dummy in a bind(C) interface is passed by descriptor (CFI_cdesc_t*), the C function expects a plain {base}*")
    return base if (by_value and not is_array) else base + "*"


blocks = []
i = 0
while i < len(lines):
    m = START.match(lines[i])
    if not m:
        i += 1
        continue
    ret, kind, fname, dummies, cname = m.groups()
    dummies = [d.strip() for d in dummies.split(",") if d.strip()]
    body = []
    j = i + 1
    depth_abs = 0
    types, errors = {}, []
    while j < len(lines) and not re.match(rf"^\s*end\s+{kind}\b", lines[j], re.I):
        l = lines[j]
        if re.match(r"^\s*abstract\s+interface", l, re.I):
            # procedure dummy with an explicit interface: function NAME(args) bind(C) ... end function
            k = j + 1
            pm = None
            ptypes = {}
            while k < len(lines) and not re.match(r"^\s*end\s+interface", lines[k], re.I):
                fm = re.match(r"^\s*(function|subroutine)\s+(\w+)\s*\(([^)]*)\)\s*bind\s*\(\s*C\s*\)", lines[k], re.I)
                if fm:
                    pm = fm
                dm = DECL.match(lines[k])
                if dm:
                    for nm in dm.group(4).split(","):
                        nm = nm.strip()
                        ptypes[re.sub(r"\(.*", "", nm)] = ctype_of(dm.group(1), dm.group(2), dm.group(3), nm, errors, f"{cname}/callback")
                k += 1
            if pm:
                pname = pm.group(2)
                pargs = [a.strip() for a in pm.group(3).split(",") if a.strip()]
                pret = ptypes.get(pname, "double*")
                pret = pret.rstrip("*") if pm.group(1).lower() == "function" else "void"
                types[pname] = f"{pret} (*)({', '.join(ptypes.get(a, '?') for a in pargs)})"
            j = k + 1
            continue
        dm = DECL.match(l)
        if dm:
            for nm in dm.group(4).split(","):
                nm = nm.strip()
                types[re.sub(r"\(.*", "", nm)] = ctype_of(dm.group(1), dm.group(2), dm.group(3), nm, errors, cname)
        j += 1
    params = []
    for d in dummies:
        if d not in types:
            errors.append(f"{cname}: dummy argument {d} has no declaration")
            params.append("?")
        else:
            params.append(types[d])
    if kind.lower() == "function":
        rt = "double" if ret and "c_double" in ret.lower() else ("int" if ret else None)
        if rt is None:
            errors.append(f"{cname}: function without a result type")
            rt = "?"
    else:
        rt = "void"
    blocks.append(dict(fortran=fname, cname=cname, ret=rt, params=params, errors=errors, line=i + 1))
    i = j + 1

count("bind_c_blocks", len(blocks))

# ------------------------------------------------------------------ C definitions of the tree (names only; types are left to the compiler)
cm = open(os.path.join(repo, "src/cmasa.cpp")).read()
cm_nc = re.sub(r"//[^\n]*", "", re.sub(r"/\*.*?\*/", "", cm, flags=re.S))
cdefs = set(re.findall(r'extern\s+"C"\s+[\w ]+?[\s\*]+(\w+)\s*\(', cm_nc))
for b in blocks:
    count("evaluations")
    for e in b["errors"]:
        violation(f"masa.f90:{b['line']}: {e}")
    if b["cname"] not in cdefs:
        violation(f"masa.f90:{b['line']}: bind(C) name '{b['cname']}' is not defined by the C interface (cmasa.cpp)")
names = [b["cname"] for b in blocks]
for n in sorted(set(names)):
    if names.count(n) > 1:
        violation(f"masa.f90 binds the C symbol {n} {names.count(n)} times")

# ------------------------------------------------------------------ static type identity: one static_assert per block
tu = ['#include <type_traits>', f'#include "{repo}/src/cmasa.cpp"',
      'template <class T> struct strip { typedef T type; }; template <class T> struct strip<const T *> { typedef T *type; };',
      'template <class F> struct norm; template <class R, class... A> struct norm<R (*)(A...)> { typedef R (*type)(typename strip<A>::type...); };',
      'template <class F> struct ret_of; template <class R, class... A> struct ret_of<R (*)(A...)> { typedef R type; };',
      'template <class F> struct as_void; template <class R, class... A> struct as_void<R (*)(A...)> { typedef void (*type)(typename strip<A>::type...); };']
checked = []
for b in blocks:
    if b["cname"] not in cdefs or "?" in b["params"] or b["ret"] == "?":
        continue
    proto = f"{b['ret']} (*)({', '.join(b['params'])})"
    sym = f"decltype(&::{b['cname']})"
    if b["ret"] == "void":
        # MASA's convention: Fortran subroutines discard the integer status of the C function
        tu.append(f'static_assert(std::is_same<as_void<{sym}>::type, {proto}>::value && (std::is_same<ret_of<{sym}>::type, void>::value || std::is_same<ret_of<{sym}>::type, int>::value), '
                  f'"C18 {b["cname"]}: Fortran interface (masa.f90:{b["line"]}) expects {proto}");')
    else:
        tu.append(f'static_assert(std::is_same<norm<{sym}>::type, {proto}>::value, "C18 {b["cname"]}: Fortran interface (masa.f90:{b["line"]}) expects {proto}");')
    checked.append(b)
tu_path = os.path.join(faildir, "f90_static.cpp")
open(tu_path, "w").write("\n".join(tu) + "\n")
r = subprocess.run(["g++", "-std=gnu++17", "-fsyntax-only", "-w", "-DHAVE_CONFIG_H", f"-I{gen}", f"-I{repo}/src", tu_path], capture_output=True, text=True)
if r.returncode != 0:
    msgs = re.findall(r'static assertion failed: (C18 [^\n]*)', r.stderr)
    for m in sorted(set(msgs)):
        violation("type mismatch between Fortran interface and C definition: " + m)
    if not msgs:
        violation("generated binding translation unit does not compile: " + r.stderr[-600:])
count("static_asserts", len(checked))
for b in checked[:4] + checked[-3:]:
    samples.append({"fortran_interface": b["fortran"], "c_symbol": b["cname"], "derived_c_prototype": f"{b['ret']} (*)({', '.join(b['params'])})", "line": b["line"]})
for b in blocks:
    distinct.add("block:" + b["cname"])

# ------------------------------------------------------------------ header declarations are defined (link check, C compiler)
hdr = open(os.path.join(gen, "masa.h")).read()
hdr_c = hdr[hdr.index('extern "C"'):]
hdr_c = re.sub(r"//[^\n]*", "", re.sub(r"/\*.*?\*/", "", hdr_c, flags=re.S))
decls = re.findall(r"extern\s+[\w ]+?[\s\*]+(\w+)\s*\(", hdr_c)
count("header_c_declarations", len(decls))
cfile = os.path.join(faildir, "hdr_link.c")
open(cfile, "w").write('#include <masa.h>\ntypedef void (*fp)(void);\nfp table[] = {\n' + "".join(f"  (fp)&{d},\n" for d in decls) + "};\nint main(void) { return table[0] == 0; }\n")
obj = os.path.join(faildir, "hdr_link.o")
r1 = subprocess.run(["gcc", "-c", "-w", f"-I{gen}", cfile, "-o", obj], capture_output=True, text=True)
if r1.returncode != 0:
    violation("masa.h does not compile as C: " + r1.stderr[-400:])
else:
    r2 = subprocess.run(["g++", obj, os.path.join(build, "lib/base/libmasa.a"), "-o", os.path.join(faildir, "hdr_link")], capture_output=True, text=True)
    if r2.returncode != 0:
        und = sorted(set(re.findall(r"undefined reference to `(\w+)'", r2.stderr)))
        for u in und:
            violation(f"masa.h declares {u} but the library does not define it")
        if not und:
            violation("link of the header check failed: " + r2.stderr[-400:])
for d in decls:
    count("evaluations")
    distinct.add("decl:" + d)

# ------------------------------------------------------------------ SWIG interface file
swig = open(os.path.join(repo, "src/masa.i")).read()
swig_nc = re.sub(r"//[^\n]*", "", re.sub(r"/\*.*?\*/", "", swig, flags=re.S))
swig_nc = re.sub(r"%\{.*?%\}", "", swig_nc, flags=re.S)
directives = re.findall(r"^\s*(%\w+)\s*(.*)$", swig_nc, re.M)
count("evaluations")
inc = [d for d in directives if d[0] == "%include"]
mod = [d for d in directives if d[0] == "%module"]
other = [d for d in directives if d[0] not in ("%include", "%module")]
if len(inc) != 1 or inc[0][1].strip() != '"masa.h"':
    violation(f"masa.i must %include exactly the public header once; found {inc}")
if len(mod) != 1 or mod[0][1].strip() != "masa":
    violation(f"masa.i module line: {mod}")
if other:
    violation(f"masa.i alters the wrapped interface: {other}")
rest = re.sub(r"^\s*%\w+.*$", "", swig_nc, flags=re.M).strip()
if rest:
    violation("masa.i contains declarations of its own: " + rest[:120])

# ------------------------------------------------------------------ generated half: call through the Fortran-derived prototypes
callable_blocks = [b for b in checked if b["ret"] == "double" and all(p in ("double", "int", "double (*)(double)", "double (*)(double*)") for p in b["params"]) and b["cname"].startswith("masa_eval_")]
g = ['#include <rapidcheck.h>', '#include <masa.h>', '#include <cstring>', '#include <cstdio>', '#include <sstream>', '#include <iostream>', '#include <fstream>', '#include <map>',
     'namespace MASA { void masa_verif_reset(); }',
     'static double cbv(double T) { return 2.5 + 1e-4 * T; } static double cbr(double *T) { return 2.5 + 1e-4 * *T; }',
     'struct Quiet { std::stringstream ss; std::streambuf *old; Quiet() { old = std::cout.rdbuf(ss.rdbuf()); } ~Quiet() { std::cout.rdbuf(old); } };']
for b in callable_blocks:
    g.append(f'extern "C" double f90_{b["cname"]}({", ".join(b["params"])}) __asm__("{b["cname"]}");   // what a Fortran processor calls')
g.append('struct B { const char *name; const char *sol; double (*via_fortran)(const double *, int); double (*via_cxx)(const double *, int); };')
g.append('static const B table[] = {')
sol_for = {1: "euler_1d", 2: "euler_2d", 3: "euler_3d", 4: "navierstokes_4d_compressible_powerlaw"}
for b in callable_blocks:
    cxx = re.sub(r"^masa_eval_[1-4]d_", "masa_eval_", b["cname"])
    nd = b["params"].count("double")
    k = 0
    fa, ca = [], []
    for p in b["params"]:
        if p == "double":
            fa.append(f"a[{k}]"); ca.append(f"a[{k}]"); k += 1
        elif p == "int":
            fa.append("i"); ca.append("i")
        elif p == "double (*)(double)":
            fa.append("&cbv"); ca.append("&cbv")
        else:
            fa.append("&cbr"); ca.append("&cbv")
    sol = "euler_chem_1d" if "rho_N" in b["cname"] else ("laplace_2d" if b["cname"].endswith("_f") or b["cname"].endswith("_phi") else sol_for.get(nd, "euler_1d"))
    g.append(f'  {{"{b["cname"]}", "{sol}", [](const double *a, int i) -> double {{ (void)a; (void)i; return f90_{b["cname"]}({", ".join(fa)}); }}, [](const double *a, int i) -> double {{ (void)a; (void)i; return MASA::{cxx}<double>({", ".join(ca)}); }}}},')
g.append('};')
g.append(r'''
int main(int argc, char **argv) { if (!freopen("/dev/null", "w", stdout)) {} unsigned long long seed = strtoull(argv[1], 0, 10); int cases = atoi(argv[2]); const char *outp = argv[3];
  const int NB = sizeof(table) / sizeof(table[0]); long evals = 0, nontrivial = 0; std::string failmsg; std::map<std::string, long> per;
  rc::detail::TestParams tp; tp.seed = seed; tp.maxSuccess = cases; tp.maxSize = 100; rc::detail::TestMetadata md; md.id = "C18:call-through"; md.description = md.id;
  auto fn = [&]() { int bi = *rc::gen::resize(rc::kNominalSize, rc::gen::inRange(0, NB)); int idx = *rc::gen::resize(rc::kNominalSize, rc::gen::inRange(-2, 6)); double a[4];
    for (int k = 0; k < 4; k++) a[k] = 0.05 + 1.9 * (*rc::gen::resize(rc::kNominalSize, rc::gen::inRange(0, 1 << 30))) / double(1 << 30);
    const B &b = table[bi]; { Quiet q; MASA::masa_verif_reset(); MASA::masa_init<double>("f90", b.sol); }
    double x, y; { Quiet q; x = b.via_fortran(a, idx); y = b.via_cxx(a, idx); } evals++; per[b.name]++; if (!(y == -1.33)) nontrivial++;
    if (memcmp(&x, &y, 8) != 0) { char m[300]; snprintf(m, sizeof m, "%s called through the prototype derived from masa.f90 returns %.17g, the C++ <double> interface %.17g (solution %s, args %.17g %.17g %.17g %.17g, index %d)", b.name, x, y, b.sol, a[0], a[1], a[2], a[3], idx); failmsg = m; RC_FAIL(failmsg); } };
  auto result = rc::detail::checkTestable(fn, md, tp); bool ok = result.template is<rc::detail::SuccessResult>();
  std::ofstream o(outp); o << "{\"evals\":" << evals << ",\"nontrivial\":" << nontrivial << ",\"bindings_called\":" << per.size() << ",\"ok\":" << (ok ? "true" : "false") << ",\"fail\":\"";
  for (char c : failmsg) { if (c == '"' || c == '\\') o << '\\'; o << c; } o << "\"}\n"; return ok ? 0 : 1; }
''')
gpath = os.path.join(faildir, "f90_calls.cpp")
open(gpath, "w").write("\n".join(g) + "\n")
exe = os.path.join(faildir, "f90_calls")
rb = subprocess.run(["g++", "-std=gnu++17", "-O0", "-w", f"-I{gen}", gpath, os.path.join(build, "lib/base/libmasa.a"), "-lrapidcheck", "-o", exe], capture_output=True, text=True)
if rb.returncode != 0:
    und = sorted(set(re.findall(r"undefined reference to `(\w+)'", rb.stderr)))
    if und:
        for u in und:
            violation(f"symbol {u} named by masa.f90 is not defined by the built library")
    else:
        violation("call-through program does not build: " + rb.stderr[-500:])
else:
    res = os.path.join(faildir, "f90_calls.json")
    rr = subprocess.run([exe, str(seed), str(cases), res], capture_output=True, text=True)
    try:
        jr = json.load(open(res))
    except Exception:
        jr = None
    if jr is None:
        violation(f"call-through program ended with status {rr.returncode} (a crash means an argument-passing mismatch)")
    else:
        count("evaluations", jr["evals"])
        count("call_through_evaluations", jr["evals"])
        count("call_through_non_sentinel", jr["nontrivial"])
        count("bindings_called", jr["bindings_called"])
        for k in range(jr["nontrivial"]):
            pass
        distinct.update(f"call:{k}" for k in range(min(jr["nontrivial"], 10 ** 6)))
        if not jr["ok"]:
            violation(jr["fail"])
count("cases", len(blocks) + len(decls) + 1)
json.dump({"counters": counters, "maxima": {}, "distinct": sorted(distinct), "samples": samples, "findings": findings}, open(out, "w"))
sys.exit(1 if findings else 0)
