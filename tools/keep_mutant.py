#!/usr/bin/env python3
"""keep_mutant.py <worktree> <name> <property> <needs> <caught_by(comma list)> <detail>  -- file a confirmed seeded change under /verif/seeded/<name>/"""
import json, os, shutil, sys
wt, name, prop, needs, caught, detail = sys.argv[1:7]
d = f"/verif/seeded/{name}"
os.makedirs(d, exist_ok=True)
for f in os.listdir(f"{wt}/MUTANT"):
    p = f"{wt}/MUTANT/{f}"
    if os.path.isfile(p) and os.path.getsize(p) < 400000 and not os.access(p, os.X_OK):
        shutil.copy(p, d)
meta = {"breaks_property": prop, "needs_to_manifest": needs,
        "confirmed_by_me": ["patch applies to a clean checkout of /repo HEAD", "library compiles with the change", "make -k check: 73 PASS, 0 FAIL, 0 ERROR with the change (tools/confirm_mutant.sh in the scratch worktree)",
                            "demonstration exits non-zero with the change and 0 without it"],
        "checks_run": f"tools/try_mutant.sh seeded/{name}/patch.diff quick {caught.replace(',', ' ')}", "caught_by": [c for c in caught.split(",") if c], "detail": detail}
json.dump(meta, open(f"{d}/meta.json", "w"), indent=1)
print("kept", d)
