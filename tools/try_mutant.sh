#!/bin/bash
# usage: tools/try_mutant.sh <patch.diff> <tier> <id> [<id> ...]
# applies the patch to /repo, runs the listed checks, restores /repo. Prints one line per check.
patch=$1; tier=$2; shift 2
cd /repo || exit 2
if [ -n "$(git status --porcelain --untracked-files=no)" ]; then echo "/repo has uncommitted changes; refusing"; exit 2; fi
git apply "$patch" || { echo "patch does not apply"; exit 2; }
cd /verif
export VERIF_EVIDENCE_DIR=/verif/build/evidence_scratch
for id in "$@"; do
  out=$(bin/check $id --tier $tier 2>&1); rc=$?
  line=$(echo "$out" | grep -E "^(VIOLATION|OK)" | head -n 1)
  echo "$id rc=$rc $line"
  echo "$out" | grep -E "^violation:" | head -n 2 | cut -c1-300
done
git -C /repo checkout -- . 
# leave /verif/build in the state of the restored tree (manual use of build/bin/* afterwards must not see the seeded change)
python3 - <<'PY' >/dev/null 2>&1
import sys, os
sys.path.insert(0, "/verif/lib")
import vdriver
vs = [v for v in ("base", "exc", "opt", "asanexc") if os.path.isdir(os.path.join(vdriver.BUILD, "lib", v))]
bins = [b for b in os.listdir(os.path.join(vdriver.BUILD, "bin"))] if os.path.isdir(os.path.join(vdriver.BUILD, "bin")) else []
vdriver.build(vs, bins)
PY
