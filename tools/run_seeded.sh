#!/bin/bash
# Re-run every filed seeded change against the first check recorded as catching it: tools/run_seeded.sh [quick|thorough] [name-prefix]
tier=${1:-quick}; pre=${2:-}
cd /verif
for d in seeded/${pre}*/; do
  n=$(basename $d)
  id=$(python3 -c "import json;print(json.load(open('$d/meta.json'))['caught_by'][0])")
  res=$(tools/try_mutant.sh /verif/$d/patch.diff $tier $id 2>&1 | grep -E "^$id rc=" | head -n 1 | cut -c1-120)
  echo "$n -> $res"
done
