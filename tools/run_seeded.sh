#!/bin/bash
# Re-run every filed seeded change against the first check recorded as catching it: tools/run_seeded.sh [quick|thorough] [name-prefix] [--save]
# --save: keep the shrunk counterexample of each as regress/<check>/<seeded-name>__<file> (the committed replay tier)
tier=${1:-quick}; pre=${2:-}; save=${3:-}
cd /verif
for d in seeded/${pre}*/; do
  n=$(basename $d)
  id=$(python3 -c "import json;c=json.load(open('$d/meta.json'))['caught_by'];print(c[0] if c else '')")
  if [ -z "$id" ]; then echo "$n -> recorded as not caught (see meta.json)"; continue; fi
  rm -rf replays/$id
  res=$(tools/try_mutant.sh /verif/$d/patch.diff $tier $id 2>&1 | grep -E "^$id rc=" | head -n 1 | cut -c1-120)
  echo "$n -> $res"
  if [ "$save" = "--save" ] && [ -d replays/$id ]; then mkdir -p regress/$id; k=0; for f in replays/$id/*; do if [ -f "$f" ] && [ $k -lt 2 ]; then case "$(basename $f)" in *@*) ;; *.case|crash-*|leak-*) cp "$f" "regress/$id/${n}@$(basename $f)"; k=$((k+1));; esac; fi; done; fi
done
